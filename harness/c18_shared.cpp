// C18 — shared const objects are thread-safe, results schedule independent
// (DESIGN.md section 5, C18; notes/C18.md).
//
//   "A solver, loss, dataset, generator stack or fitted model that is only used through its const interface may be
//    used concurrently from any number of threads (each with its own function object): there are no data races, and
//    every call returns bit-identical results to the same call executed alone.  In particular, tuning and fitting
//    linear and gradient-boosting models, which internally share one solver, loss and dataset across fold/trial
//    threads, is race-free and yields the same model whatever the number of hardware threads, up to floating-point
//    re-association (same selected features, predictions within 1e-5 relative)."
//
// Six sub-checks.  "solver", "loss", "dataset", "predict": the shared object is built on the main thread, every
// call of every thread is first executed ALONE (sequentially, before the threads exist) and recorded; then the
// threads are released together by a spin barrier (and meet again before every repetition) and repeat their calls on
// the shared object; every result must be bit-identical to the recorded one.  "fit": the same fit is run under several
// (dataset pool, NANO_VERIF_MAX_THREADS) configurations with generated delays at the pool's schedule points and the
// fitted models are compared where the property's tolerance is meaningful (smooth objective, no partition-scoring weak
// learner; the other fits run for the race check).  "wfit": one weak learner fitted with given gradients under dataset
// pools 1/2/16 must be bit-identical (this is where a schedule-dependent feature selection shows without any
// floating-point re-association in the way).
// The same source is built in the plain and in the tsan flavour: under ThreadSanitizer a data race aborts the case
// (the driver turns that into race/<kind>/<first libnano frame>).
//
// Harness-side sharing rules (ThreadSanitizer would otherwise blame the harness): every result slot is pre-sized,
// written by exactly one thread and read after join(); counters are atomics; rapidcheck is only used on the main
// thread (generation happens before check_case); exceptions never cross threads.
#include "common.h"
#include "dataset_gen.h"

#include <atomic>
#include <chrono>
#include <cstring>
#include <filesystem>
#include <nano/core/parallel.h>
#include <nano/core/verif.h>
#include <nano/dataset.h>
#include <nano/function.h>
#include <nano/gboost/enums.h>
#include <nano/gboost/model.h>
#include <nano/gboost/result.h>
#include <nano/generator/elemwise_gradient.h>
#include <nano/generator/elemwise_identity.h>
#include <nano/generator/pairwise_product.h>
#include <nano/linear.h>
#include <nano/linear/result.h>
#include <nano/loss.h>
#include <nano/machine/params.h>
#include <nano/machine/result.h>
#include <nano/solver.h>
#include <nano/splitter.h>
#include <nano/tuner.h>
#include <nano/wlearner.h>
#include <nano/wlearner/criterion.h>
#include <regex>
#include <thread>

using namespace verif;
using verif::ds::data_spec_t;
using nano::indices_t;
using nano::scalar_t;
using nano::tensor_size_t;
namespace nv = nano::verif;

namespace
{
// ---------------------------------------------------------------------------------------------------
// concurrency helpers
// ---------------------------------------------------------------------------------------------------
void spin(int iterations)
{
    volatile int sink = 0;
    for (int i = 0; i < iterations; ++i)
    {
        sink = sink + i;
    }
}

// number of threads inside a call on the shared object (entry/exit counter) and its maximum
struct overlap_t
{
    std::atomic<int> in{0}, peak{0};

    void enter()
    {
        const int v = in.fetch_add(1) + 1;
        int       p = peak.load();
        while (p < v && !peak.compare_exchange_weak(p, v))
        {
        }
    }

    void leave() { in.fetch_sub(1); }
};

struct inside_t
{
    explicit inside_t(overlap_t& o)
        : m_o(o)
    {
        m_o.enter();
    }

    ~inside_t() { m_o.leave(); }

    inside_t(const inside_t&)            = delete;
    inside_t& operator=(const inside_t&) = delete;

    overlap_t& m_o;
};

// bounded rendezvous: a thread that reaches round r waits (spin + yield, at most a few ms) until all threads have reached it.
// On an oversubscribed machine a released thread may not get a CPU before the others have finished; meeting again at every
// repetition makes it likely that the calls on the shared object really overlap.  Never blocks for good: it only delays.
class rendezvous_t
{
public:
    rendezvous_t(const int threads, const int rounds)
        : m_threads(threads)
        , m_rounds(std::max(1, rounds))
        , m_counts(new std::atomic<int>[static_cast<size_t>(std::max(1, rounds))])
    {
        for (int r = 0; r < m_rounds; ++r)
        {
            m_counts[static_cast<size_t>(r)].store(0);
        }
    }

    void meet(const int round) const
    {
        if (round < 0 || round >= m_rounds)
        {
            return;
        }
        auto& count = m_counts[static_cast<size_t>(round)];
        count.fetch_add(1);
        for (int i = 0; i < 400 && count.load(std::memory_order_acquire) < m_threads; ++i)
        {
            spin(2000);
            std::this_thread::yield(); // gives the CPU to a thread of this case that has not been scheduled yet
        }
    }

private:
    int                                 m_threads, m_rounds;
    std::unique_ptr<std::atomic<int>[]> m_counts;
};

// runs body(t, rendezvous) on `threads` threads released together (spin barrier on an atomic); body must not throw
template <class tbody>
void run_together(const int threads, const std::vector<int>& stagger, const int rounds, const tbody& body)
{
    std::atomic<int>         ready{0};
    std::atomic<bool>        go{false};
    const rendezvous_t       rendezvous(threads, rounds);
    std::vector<std::thread> pool;
    pool.reserve(static_cast<size_t>(threads));
    for (int t = 0; t < threads; ++t)
    {
        pool.emplace_back(
            [&, t]
            {
                ready.fetch_add(1);
                while (!go.load(std::memory_order_acquire))
                {
                    std::this_thread::yield();
                }
                spin(stagger.empty() ? 0 : stagger[static_cast<size_t>(t) % stagger.size()]);
                body(t, rendezvous);
            });
    }
    while (ready.load() < threads)
    {
        std::this_thread::yield();
    }
    go.store(true, std::memory_order_release);
    for (auto& th : pool)
    {
        th.join();
    }
}

// generated schedule perturbation at the NANO_VERIF schedule points (as in c17_pool.cpp) + in-flight pool tasks
std::atomic<int> g_delay_kind[nv::npoints];
std::atomic<int> g_delay_budget[nv::npoints];
std::atomic<const char*> g_dataset_pool_begin{nullptr}; // address range of the dataset's pool object: its queue lives inside
std::atomic<const char*> g_dataset_pool_end{nullptr};
overlap_t                g_tasks_outer; // tasks of pools other than the dataset's (the fold/trial pool of ml::tune)
overlap_t                g_tasks_all;

void hook(int point, const void* object, std::size_t)
{
    if (point == nv::worker_run || point == nv::worker_ran)
    {
        const auto* const p     = static_cast<const char*>(object);
        const bool        inner = p >= g_dataset_pool_begin.load() && p < g_dataset_pool_end.load();
        if (point == nv::worker_run)
        {
            g_tasks_all.enter();
            if (!inner)
            {
                g_tasks_outer.enter();
            }
        }
        else
        {
            g_tasks_all.leave();
            if (!inner)
            {
                g_tasks_outer.leave();
            }
        }
    }
    const int kind = g_delay_kind[point].load(std::memory_order_relaxed);
    if (kind != 0 && g_delay_budget[point].fetch_sub(1, std::memory_order_relaxed) > 0)
    {
        switch (kind)
        {
        case 1: std::this_thread::yield(); break;
        case 2: spin(3000); break;
        case 3: std::this_thread::sleep_for(std::chrono::microseconds(100)); break;
        default: std::this_thread::sleep_for(std::chrono::milliseconds(1)); break;
        }
    }
}

void install_delays(const std::vector<int>& delay_kind)
{
    for (int p = 0; p < nv::npoints; ++p)
    {
        const int kind = delay_kind.empty() ? 0 : delay_kind[static_cast<size_t>(p) % delay_kind.size()];
        g_delay_kind[p].store(kind);
        g_delay_budget[p].store(kind >= 3 ? 6 : 100);
    }
    g_tasks_outer.in.store(0);
    g_tasks_outer.peak.store(0);
    g_tasks_all.in.store(0);
    g_tasks_all.peak.store(0);
    nv::callback().store(&hook);
}

void remove_delays()
{
    nv::callback().store(nullptr);
}

void watch_dataset_pool(const nano::dataset_t* dataset)
{
    if (dataset == nullptr)
    {
        g_dataset_pool_begin.store(nullptr);
        g_dataset_pool_end.store(nullptr);
    }
    else
    {
        const auto* const p = reinterpret_cast<const char*>(&dataset->thread_pool());
        g_dataset_pool_begin.store(p);
        g_dataset_pool_end.store(p + sizeof(nano::parallel::pool_t));
    }
}

rc::Gen<std::vector<int>> gen_delays()
{
    return rc::gen::container<std::vector<int>>(static_cast<size_t>(nv::npoints), rc::gen::element(0, 0, 0, 0, 1, 2, 3, 4));
}

rc::Gen<std::vector<int>> gen_stagger(int threads)
{
    return rc::gen::container<std::vector<int>>(static_cast<size_t>(threads), rc::gen::element(0, 0, 0, 50, 500, 5000));
}

// ---------------------------------------------------------------------------------------------------
// value helpers
// ---------------------------------------------------------------------------------------------------
// bit-identical, except that any NaN equals any NaN
bool same_bits(const double a, const double b)
{
    return std::memcmp(&a, &b, sizeof(double)) == 0 || (std::isnan(a) && std::isnan(b));
}

bool same_bits(const std::vector<double>& a, const std::vector<double>& b)
{
    if (a.size() != b.size())
    {
        return false;
    }
    for (size_t i = 0; i < a.size(); ++i)
    {
        if (!same_bits(a[i], b[i]))
        {
            return false;
        }
    }
    return true;
}

std::string first_difference(const std::vector<double>& a, const std::vector<double>& b)
{
    if (a.size() != b.size())
    {
        return cat("sizes ", a.size(), " vs ", b.size());
    }
    for (size_t i = 0; i < a.size(); ++i)
    {
        if (!same_bits(a[i], b[i]))
        {
            return cat("element ", i, " of ", a.size(), ": alone ", a[i], " concurrent ", b[i]);
        }
    }
    return "equal";
}

template <class ttensor>
void append(std::vector<double>& out, const ttensor& t)
{
    const auto* const p = t.data();
    for (tensor_size_t i = 0, n = t.size(); i < n; ++i)
    {
        out.push_back(static_cast<double>(p[i]));
    }
}

indices_t to_indices(const std::vector<int>& v)
{
    indices_t t(static_cast<tensor_size_t>(v.size()));
    for (size_t i = 0; i < v.size(); ++i)
    {
        t(static_cast<tensor_size_t>(i)) = v[i];
    }
    return t;
}

// outcome of one recorded call: values + whether it threw (the exception is only inspected on the throwing thread)
struct outcome_t
{
    std::vector<double> values;
    bool                threw{false};
    std::string         what;
};

bool same_outcome(const outcome_t& alone, const outcome_t& conc)
{
    return alone.threw == conc.threw && same_bits(alone.values, conc.values);
}

std::string describe(const outcome_t& alone, const outcome_t& conc)
{
    if (alone.threw != conc.threw)
    {
        return cat("alone ", alone.threw ? "threw: " + alone.what : std::string("returned"), ", concurrent ",
                   conc.threw ? "threw: " + conc.what : std::string("returned"));
    }
    return first_difference(alone.values, conc.values);
}

template <class tcall>
outcome_t record(const tcall& call)
{
    outcome_t o;
    try
    {
        call(o.values);
    }
    catch (const std::exception& e)
    {
        o.threw = true;
        o.what  = e.what();
        o.values.clear();
    }
    catch (...)
    {
        o.threw = true;
        o.what  = "unknown exception";
        o.values.clear();
    }
    return o;
}

// per-thread comparison result (one slot per thread, read after join)
struct thread_report_t
{
    int         calls{0};
    bool        bad{false};
    std::string where, msg;
};

// ===================================================================================================
// 1. solver: concurrent minimize() on one shared solver instance, each thread with its own function
// ===================================================================================================
const std::vector<std::string>& deterministic_solvers()
{
    static const std::vector<std::string> ids = []
    {
        std::vector<std::string> r;
        for (const auto& id : nano::solver_t::all().ids())
        {
            // the gradient-sampling family (gs, ags, gs-lbfgs, ags-lbfgs) draws random numbers
            if (!std::regex_match(id, std::regex("^(gs|ags)(-.*)?$")))
            {
                r.push_back(id);
            }
        }
        return r;
    }();
    return ids;
}

// f(x) = 0.5 x'(I + B B')x + b'x
class gen_quadratic_t final : public nano::function_t
{
public:
    gen_quadratic_t(const int dims, const std::vector<double>& coeffs)
        : nano::function_t("verif-quadratic", dims)
        , m_A(Eigen::MatrixXd::Identity(dims, dims))
        , m_b(Eigen::VectorXd::Zero(dims))
    {
        Eigen::MatrixXd B = Eigen::MatrixXd::Zero(dims, dims);
        const auto      n = coeffs.size();
        for (int i = 0; i < dims && n > 0; ++i)
        {
            for (int j = 0; j < dims; ++j)
            {
                B(i, j) = coeffs[static_cast<size_t>(i * dims + j) % n];
            }
            m_b(i) = coeffs[static_cast<size_t>(dims * dims + i) % n];
        }
        m_A += B * B.transpose();
        convex(nano::convexity::yes);
        smooth(nano::smoothness::yes);
        strong_convexity(1.0);
    }

    nano::rfunction_t clone() const override { return std::make_unique<gen_quadratic_t>(*this); }

    scalar_t do_vgrad(nano::vector_cmap_t x, nano::vector_map_t gx) const override
    {
        const Eigen::VectorXd xv = x.vector();
        const Eigen::VectorXd Ax = m_A * xv;
        if (gx.size() == x.size())
        {
            gx.vector() = Ax + m_b;
        }
        return 0.5 * xv.dot(Ax) + m_b.dot(xv);
    }

private:
    Eigen::MatrixXd m_A;
    Eigen::VectorXd m_b;
};

struct solver_case_t
{
    int                              solver{0};
    int                              lsearch0{-1}, lsearchk{-1};
    double                           epsilon{1e-6};
    int                              max_evals{100};
    int                              threads{2}, reps{1};
    std::vector<int>                 fkind, fdims, fsummands; // per thread; fkind < 0: generated quadratic
    std::vector<std::vector<double>> coeffs;                  // per thread (generated quadratic)
    std::vector<std::vector<double>> x0;                      // per thread, 16 values, used cyclically
    std::vector<int>                 stagger;

    template <class A>
    void io(A& a)
    {
        a("solver", solver);
        a("lsearch0", lsearch0);
        a("lsearchk", lsearchk);
        a("epsilon", epsilon);
        a("max_evals", max_evals);
        a("threads", threads);
        a("reps", reps);
        a("fkind", fkind);
        a("fdims", fdims);
        a("fsummands", fsummands);
        a("coeffs", coeffs);
        a("x0", x0);
        a("stagger", stagger);
    }
};

rc::Gen<solver_case_t> gen_solver_case()
{
    return rc::gen::mapcat(
        gen::range<int>(2, 8),
        [](int threads)
        {
            const auto n = static_cast<size_t>(threads);
            return rc::gen::map(
                rc::gen::tuple(rc::gen::tuple(gen::range<int>(0, 255), gen::range<int>(-1, 3), gen::range<int>(-1, 4), gen::logu(1e-10, 1e-2),
                                              gen::range<int>(50, 400), gen::range<int>(1, 3)),
                               rc::gen::container<std::vector<int>>(n, rc::gen::oneOf(rc::gen::just(-1), gen::range<int>(0, 255))),
                               rc::gen::container<std::vector<int>>(n, gen::range<int>(1, 8)),
                               rc::gen::container<std::vector<int>>(n, gen::range<int>(5, 40)),
                               rc::gen::container<std::vector<std::vector<double>>>(n, gen::vec(24, 2.0)),
                               rc::gen::container<std::vector<std::vector<double>>>(n, gen::vec(16, 3.0)), gen_stagger(threads)),
                [threads](const auto& t)
                {
                    solver_case_t c;
                    const auto&   h = std::get<0>(t);
                    c.solver        = std::get<0>(h);
                    c.lsearch0      = std::get<1>(h);
                    c.lsearchk      = std::get<2>(h);
                    c.epsilon       = std::get<3>(h);
                    c.max_evals     = std::get<4>(h);
                    c.reps          = std::get<5>(h);
                    c.threads       = threads;
                    c.fkind         = std::get<1>(t);
                    c.fdims         = std::get<2>(t);
                    c.fsummands     = std::get<3>(t);
                    c.coeffs        = std::get<4>(t);
                    c.x0            = std::get<5>(t);
                    c.stagger       = std::get<6>(t);
                    return c;
                });
        });
}

outcome_t run_minimize(const nano::solver_t& solver, const nano::function_t& function, const nano::vector_t& x0, const nano::logger_t& logger,
                       tensor_size_t* fcalls = nullptr)
{
    return record(
        [&](std::vector<double>& out)
        {
            const auto state = solver.minimize(function, x0, logger);
            append(out, state.x());
            out.push_back(state.fx());
            append(out, state.gx());
            out.push_back(static_cast<double>(static_cast<int>(state.status())));
            out.push_back(static_cast<double>(state.fcalls()));
            out.push_back(static_cast<double>(state.gcalls()));
            if (fcalls != nullptr)
            {
                *fcalls = state.fcalls();
            }
        });
}

verdict_t check_solver(const solver_case_t& c, ctx_t& ctx)
{
    const auto n = static_cast<size_t>(c.threads);
    if (c.threads < 2 || c.threads > 8 || c.reps < 1 || c.reps > 8 || c.fkind.size() != n || c.fdims.size() != n || c.fsummands.size() != n ||
        c.coeffs.size() != n || c.x0.size() != n || c.solver < 0)
    {
        return verdict_t::discard("malformed");
    }
    for (size_t t = 0; t < n; ++t)
    {
        if (c.fdims[t] < 1 || c.fdims[t] > 8 || c.fsummands[t] < 1 || c.fsummands[t] > 1000 || c.coeffs[t].empty() || c.x0[t].empty())
        {
            return verdict_t::discard("malformed");
        }
    }
    nv::rng_state().store(12345U);

    const auto& ids      = deterministic_solvers();
    const auto  id       = ids[static_cast<size_t>(c.solver) % ids.size()];
    const auto  l0ids    = nano::lsearch0_t::all().ids();
    const auto  lkids    = nano::lsearchk_t::all().ids();
    const auto  fids     = nano::function_t::all().ids();
    auto        rsolver  = nano::solver_t::all().get(id);
    std::string l0 = "default", lk = "default";
    try
    {
        rsolver->parameter("solver::epsilon")   = c.epsilon;
        rsolver->parameter("solver::max_evals") = c.max_evals;
        if (c.lsearch0 >= 0)
        {
            l0 = l0ids[static_cast<size_t>(c.lsearch0) % l0ids.size()];
            rsolver->lsearch0(l0);
        }
        if (c.lsearchk >= 0)
        {
            lk = lkids[static_cast<size_t>(c.lsearchk) % lkids.size()];
            rsolver->lsearchk(lk);
        }
    }
    catch (const std::exception&)
    {
        return verdict_t::discard("setup-rejected");
    }
    const nano::solver_t& solver = *rsolver; // from here on: const interface only

    // every thread's own function object and start point
    std::vector<nano::rfunction_t> functions(n);
    std::vector<nano::vector_t>    x0s(n);
    for (size_t t = 0; t < n; ++t)
    {
        if (c.fkind[t] < 0)
        {
            functions[t] = std::make_unique<gen_quadratic_t>(c.fdims[t], c.coeffs[t]);
        }
        else
        {
            const auto proto = nano::function_t::all().get(fids[static_cast<size_t>(c.fkind[t]) % fids.size()]);
            functions[t]     = proto->make(c.fdims[t], c.fsummands[t]);
            if (!functions[t])
            {
                functions[t] = proto->clone();
            }
        }
        x0s[t].resize(functions[t]->size());
        for (tensor_size_t i = 0; i < x0s[t].size(); ++i)
        {
            x0s[t](i) = c.x0[t][static_cast<size_t>(i) % c.x0[t].size()];
        }
    }

    // alone
    std::vector<outcome_t>     alone(n);
    std::vector<tensor_size_t> fcalls(n, 0);
    {
        const auto logger = nano::make_null_logger();
        for (size_t t = 0; t < n; ++t)
        {
            alone[t] = run_minimize(solver, *functions[t], x0s[t], logger, &fcalls[t]);
        }
    }

    // together
    overlap_t                    overlap;
    std::vector<thread_report_t> reports(n);
    run_together(c.threads, c.stagger, c.reps,
                 [&](int t, const rendezvous_t& rendezvous)
                 {
                     const auto ut     = static_cast<size_t>(t);
                     const auto logger = nano::make_null_logger();
                     auto&      rep    = reports[ut];
                     for (int r = 0; r < c.reps; ++r)
                     {
                         rendezvous.meet(r);
                         outcome_t got;
                         {
                             const inside_t inside(overlap);
                             got = run_minimize(solver, *functions[ut], x0s[ut], logger);
                         }
                         ++rep.calls;
                         if (!rep.bad && !same_outcome(alone[ut], got))
                         {
                             rep.bad   = true;
                             rep.where = alone[ut].threw != got.threw ? "exception-differs" : "result-differs";
                             rep.msg   = cat("thread ", t, " repetition ", r, " function ", functions[ut]->name(), ": ", describe(alone[ut], got));
                         }
                     }
                 });

    for (const auto& rep : reports)
    {
        if (rep.bad)
        {
            return verdict_t::violation(cat("C18/solver/", rep.where), cat("solver ", id, " lsearch0 ", l0, " lsearchk ", lk, ": ", rep.msg));
        }
    }

    int iterated = 0, threw = 0;
    for (size_t t = 0; t < n; ++t)
    {
        iterated += fcalls[t] >= 3 ? 1 : 0;
        threw += alone[t].threw ? 1 : 0;
    }
    ctx.label(cat("solver:", id));
    ctx.label(cat("threads:", c.threads));
    ctx.label(cat("overlap:", std::min(overlap.peak.load(), 4), overlap.peak.load() >= 4 ? "+" : ""));
    ctx.label_if(threw > 0, "minimize-throws");
    ctx.label_if(c.lsearch0 >= 0 || c.lsearchk >= 0, "custom-line-search");
    ctx.maximum("peak-in-flight", overlap.peak.load());
    ctx.nontrivial = overlap.peak.load() >= 2 && iterated >= 2;
    return verdict_t::ok();
}

// ===================================================================================================
// 2. loss: value / error / vgrad of one shared loss object on shared read-only tensors
// ===================================================================================================
struct loss_case_t
{
    int                           loss{0};
    double                        alpha{0.5}; // pinball
    int                           samples{1}, d0{1}, d1{1}, d2{1};
    std::vector<double>           targets; // regression targets (used cyclically)
    std::vector<int>              labels;  // classification: positive label (single-label) / bit mask (multi-label), per sample
    std::vector<double>           outputs; // used cyclically
    int                           threads{2}, reps{1};
    std::vector<std::vector<int>> ops;    // per thread: 0 value, 1 error, 2 vgrad
    std::vector<int>              ranges; // per thread: (begin, length) draws selecting the thread's own slice of the shared tensors
    std::vector<int>              stagger;

    template <class A>
    void io(A& a)
    {
        a("loss", loss);
        a("alpha", alpha);
        a("samples", samples);
        a("d0", d0);
        a("d1", d1);
        a("d2", d2);
        a("targets", targets);
        a("labels", labels);
        a("outputs", outputs);
        a("threads", threads);
        a("reps", reps);
        a("ops", ops);
        a("ranges", ranges);
        a("stagger", stagger);
    }
};

rc::Gen<loss_case_t> gen_loss_case()
{
    return rc::gen::mapcat(
        rc::gen::tuple(gen::range<int>(2, 8), rc::gen::oneOf(gen::range<int>(1, 12), gen::range<int>(1, 200)),
                       rc::gen::element(std::array<int, 3>{1, 1, 1}, std::array<int, 3>{2, 1, 1}, std::array<int, 3>{3, 1, 1}, std::array<int, 3>{5, 1, 1},
                                        std::array<int, 3>{2, 2, 1}, std::array<int, 3>{1, 3, 3}, std::array<int, 3>{3, 3, 3})),
        [](const std::tuple<int, int, std::array<int, 3>>& tsd)
        {
            const int  threads = std::get<0>(tsd);
            const int  samples = std::get<1>(tsd);
            const auto dims    = std::get<2>(tsd);
            const auto size    = static_cast<size_t>(samples * dims[0] * dims[1] * dims[2]);
            const auto oplist  = rc::gen::mapcat(gen::range<int>(1, 6), [](int k) { return rc::gen::container<std::vector<int>>(static_cast<size_t>(k), gen::range<int>(0, 2)); });
            return rc::gen::map(
                rc::gen::tuple(gen::range<int>(0, 255), gen::real(0.05, 0.95), gen::vec(size, 3.0),
                               rc::gen::container<std::vector<int>>(static_cast<size_t>(samples), gen::range<int>(0, (1 << 27) - 1)), gen::vec(size, 4.0),
                               rc::gen::element(1, 3, 10, 40), rc::gen::container<std::vector<std::vector<int>>>(static_cast<size_t>(threads), oplist),
                               gen_stagger(threads), rc::gen::container<std::vector<int>>(static_cast<size_t>(2 * threads), rc::gen::oneOf(rc::gen::just(0), gen::range<int>(0, 1000)))),
                [=](const auto& t)
                {
                    loss_case_t c;
                    c.loss    = std::get<0>(t);
                    c.alpha   = std::get<1>(t);
                    c.samples = samples;
                    c.d0      = dims[0];
                    c.d1      = dims[1];
                    c.d2      = dims[2];
                    c.targets = std::get<2>(t);
                    c.labels  = std::get<3>(t);
                    c.outputs = std::get<4>(t);
                    c.threads = threads;
                    c.reps    = std::get<5>(t);
                    c.ops     = std::get<6>(t);
                    c.stagger = std::get<7>(t);
                    c.ranges  = std::get<8>(t);
                    return c;
                });
        });
}

outcome_t run_loss(const nano::loss_t& loss, const nano::tensor4d_cmap_t& targets, const nano::tensor4d_cmap_t& outputs, int op, nano::tensor1d_t& vbuffer,
                   nano::tensor4d_t& gbuffer)
{
    return record(
        [&](std::vector<double>& out)
        {
            switch (op)
            {
            case 0:
                loss.value(targets, outputs, vbuffer);
                append(out, vbuffer);
                break;
            case 1:
                loss.error(targets, outputs, vbuffer);
                append(out, vbuffer);
                break;
            default:
                loss.vgrad(targets, outputs, gbuffer);
                append(out, gbuffer);
                break;
            }
        });
}

verdict_t check_loss(const loss_case_t& c, ctx_t& ctx)
{
    const auto n = static_cast<size_t>(c.threads);
    if (c.threads < 2 || c.threads > 8 || c.reps < 1 || c.reps > 100 || c.samples < 1 || c.samples > 1000 || c.d0 < 1 || c.d1 < 1 || c.d2 < 1 ||
        c.d0 * c.d1 * c.d2 > 64 || c.targets.empty() || c.outputs.empty() || c.labels.empty() || c.ops.size() != n || c.ranges.size() != 2 * n || c.loss < 0)
    {
        return verdict_t::discard("malformed");
    }
    const auto ids   = nano::loss_t::all().ids();
    const auto id    = ids[static_cast<size_t>(c.loss) % ids.size()];
    auto       rloss = nano::loss_t::all().get(id);
    try
    {
        if (id == "pinball")
        {
            rloss->parameter("loss::pinball::alpha") = c.alpha;
        }
    }
    catch (const std::exception&)
    {
        return verdict_t::discard("setup-rejected");
    }
    const nano::loss_t& loss = *rloss;

    const bool single = id.rfind("s-", 0) == 0, multi = id.rfind("m-", 0) == 0;
    const int  D      = c.d0 * c.d1 * c.d2;

    nano::tensor4d_t targets(c.samples, c.d0, c.d1, c.d2), outputs(c.samples, c.d0, c.d1, c.d2);
    for (int i = 0; i < c.samples; ++i)
    {
        const int label = c.labels[static_cast<size_t>(i) % c.labels.size()];
        for (int k = 0; k < D; ++k)
        {
            const auto at = static_cast<size_t>(i * D + k);
            double     tv = c.targets[at % c.targets.size()];
            if (single)
            {
                tv = D == 1 ? ((label & 1) != 0 ? 1.0 : -1.0) : (label % D == k ? 1.0 : -1.0); // at most one positive label
            }
            else if (multi)
            {
                tv = ((label >> (k % 27)) & 1) != 0 ? 1.0 : -1.0;
            }
            targets.data()[at] = tv;
            outputs.data()[at] = c.outputs[at % c.outputs.size()];
        }
    }
    const nano::tensor4d_t& ctargets = targets;
    const nano::tensor4d_t& coutputs = outputs;

    // every thread works on its own slice [begin, end) of the shared tensors (draw 0 0 = all samples)
    std::vector<std::pair<tensor_size_t, tensor_size_t>> ranges(n);
    for (size_t t = 0; t < n; ++t)
    {
        const auto begin = static_cast<tensor_size_t>(std::abs(c.ranges[2 * t + 0]) % c.samples);
        const auto rest  = static_cast<tensor_size_t>(c.samples) - begin;
        const auto len   = c.ranges[2 * t + 1] == 0 ? rest : 1 + static_cast<tensor_size_t>(std::abs(c.ranges[2 * t + 1])) % rest;
        ranges[t]        = {begin, begin + len};
    }

    // alone
    std::vector<std::vector<outcome_t>> alone(n, std::vector<outcome_t>(3));
    for (size_t t = 0; t < n; ++t)
    {
        nano::tensor1d_t vbuffer;
        nano::tensor4d_t gbuffer;
        for (int op = 0; op < 3; ++op)
        {
            alone[t][static_cast<size_t>(op)] =
                run_loss(loss, ctargets.slice(ranges[t].first, ranges[t].second), coutputs.slice(ranges[t].first, ranges[t].second), op, vbuffer, gbuffer);
        }
    }

    overlap_t                    overlap;
    std::vector<thread_report_t> reports(n);
    run_together(c.threads, c.stagger, c.reps,
                 [&](int t, const rendezvous_t& rendezvous)
                 {
                     const auto       ut  = static_cast<size_t>(t);
                     auto&            rep = reports[ut];
                     nano::tensor1d_t vbuffer;
                     nano::tensor4d_t gbuffer;
                     for (int r = 0; r < c.reps; ++r)
                     {
                         rendezvous.meet(r);
                         for (const auto rawop : c.ops[ut])
                         {
                             const int op = ((rawop % 3) + 3) % 3;
                             outcome_t got;
                             {
                                 const inside_t inside(overlap);
                                 got = run_loss(loss, ctargets.slice(ranges[ut].first, ranges[ut].second), coutputs.slice(ranges[ut].first, ranges[ut].second), op,
                                                vbuffer, gbuffer);
                             }
                             ++rep.calls;
                             if (!rep.bad && !same_outcome(alone[ut][static_cast<size_t>(op)], got))
                             {
                                 rep.bad   = true;
                                 rep.where = op == 0 ? "value" : op == 1 ? "error" : "vgrad";
                                 rep.msg   = cat("thread ", t, " repetition ", r, ": ", describe(alone[ut][static_cast<size_t>(op)], got));
                             }
                         }
                     }
                 });
    for (const auto& rep : reports)
    {
        if (rep.bad)
        {
            return verdict_t::violation(cat("C18/loss/", rep.where, "-differs"), cat("loss ", id, ": ", rep.msg));
        }
    }

    bool nonzero = false, threw = false;
    for (const auto& a : alone)
    {
        for (const auto v : a[0].values)
        {
            nonzero = nonzero || v != 0.0;
        }
        threw = threw || a[0].threw || a[1].threw || a[2].threw;
    }
    ctx.label(cat("loss:", id));
    ctx.label(cat("overlap:", std::min(overlap.peak.load(), 4), overlap.peak.load() >= 4 ? "+" : ""));
    ctx.label_if(threw, "loss-throws");
    ctx.maximum("peak-in-flight", overlap.peak.load());
    ctx.nontrivial = overlap.peak.load() >= 2 && nonzero && c.samples >= 2;
    return verdict_t::ok();
}

// ===================================================================================================
// 3. dataset: flatten / select / targets of one shared dataset (generated generator stack) with per-thread buffers
// ===================================================================================================
struct stack_t
{
    std::vector<int>              kind;        // 0 sclass, 1 mclass, 2 scalar, 3 struct identity, 4 pairwise product, 5 gradient
    std::vector<int>              subset_mode; // 0: all features, 1: one explicit subset, 2: two explicit subsets (product)
    std::vector<std::vector<int>> subset1, subset2;
    std::vector<int>              kernel;

    template <class A>
    void io(A& a)
    {
        a("gen_kind", kind);
        a("gen_subset_mode", subset_mode);
        a("gen_subset1", subset1);
        a("gen_subset2", subset2);
        a("gen_kernel", kernel);
    }

    bool valid() const
    {
        const auto n = kind.size();
        return n >= 1 && subset_mode.size() == n && subset1.size() == n && subset2.size() == n && kernel.size() == n;
    }
};

rc::Gen<stack_t> gen_stack(int ninputs)
{
    const auto subset  = rc::gen::mapcat(gen::range<int>(1, std::max(1, ninputs)),
                                         [ninputs](int len)
                                         {
                                            return rc::gen::map(rc::gen::container<std::vector<int>>(static_cast<size_t>(len), gen::range<int>(0, std::max(0, ninputs - 1))),
                                                                [](const std::vector<int>& v)
                                                                {
                                                                    std::vector<int> r; // distinct, any order
                                                                    for (const auto x : v)
                                                                    {
                                                                        if (std::find(r.begin(), r.end(), x) == r.end())
                                                                        {
                                                                            r.push_back(x);
                                                                        }
                                                                    }
                                                                    return r;
                                                                });
                                        });
    const auto one_gen = rc::gen::tuple(gen::range<int>(0, 5), rc::gen::element(0, 0, 1, 2), subset, subset, gen::range<int>(0, 2));
    using one_t        = std::tuple<int, int, std::vector<int>, std::vector<int>, int>;
    return rc::gen::map(rc::gen::mapcat(gen::range<int>(1, 5), [one_gen](int k) { return rc::gen::container<std::vector<one_t>>(static_cast<size_t>(k), one_gen); }),
                        [](const std::vector<one_t>& gens)
                        {
                            stack_t s;
                            for (const auto& g : gens)
                            {
                                s.kind.push_back(std::get<0>(g));
                                s.subset_mode.push_back(std::get<1>(g));
                                s.subset1.push_back(std::get<2>(g));
                                s.subset2.push_back(std::get<3>(g));
                                s.kernel.push_back(std::get<4>(g));
                            }
                            return s;
                        });
}

void add_stack(nano::dataset_t& dataset, const stack_t& s, int ninputs)
{
    for (size_t g = 0; g < s.kind.size(); ++g)
    {
        auto s1 = s.subset1[g], s2 = s.subset2[g];
        for (auto* v : {&s1, &s2})
        {
            for (auto& x : *v)
            {
                x = std::max(0, std::min(ninputs - 1, x));
            }
        }
        const bool explicit1 = s.subset_mode[g] >= 1 && !s1.empty();
        const bool explicit2 = s.subset_mode[g] == 2 && !s2.empty();
        const auto idx1      = to_indices(s1);
        const auto idx2      = to_indices(s2);
        switch (((s.kind[g] % 6) + 6) % 6)
        {
        case 0: explicit1 ? dataset.add<nano::sclass_identity_generator_t>(idx1) : dataset.add<nano::sclass_identity_generator_t>(); break;
        case 1: explicit1 ? dataset.add<nano::mclass_identity_generator_t>(idx1) : dataset.add<nano::mclass_identity_generator_t>(); break;
        case 2: explicit1 ? dataset.add<nano::scalar_identity_generator_t>(idx1) : dataset.add<nano::scalar_identity_generator_t>(); break;
        case 3: explicit1 ? dataset.add<nano::struct_identity_generator_t>(idx1) : dataset.add<nano::struct_identity_generator_t>(); break;
        case 4:
            if (explicit1 && explicit2)
            {
                dataset.add<nano::pairwise_product_generator_t>(idx1, idx2);
            }
            else if (explicit1)
            {
                dataset.add<nano::pairwise_product_generator_t>(idx1);
            }
            else
            {
                dataset.add<nano::pairwise_product_generator_t>();
            }
            break;
        default:
        {
            const auto kernel = static_cast<nano::kernel3x3_type>(((s.kernel[g] % 3) + 3) % 3);
            explicit1 ? dataset.add<nano::gradient_generator_t>(kernel, idx1) : dataset.add<nano::gradient_generator_t>(kernel);
            break;
        }
        }
    }
}

rc::Gen<std::vector<int>> gen_sample_list(int n)
{
    return rc::gen::mapcat(gen::range<int>(0, 4),
                           [n](int style) -> rc::Gen<std::vector<int>>
                           {
                               std::vector<int> all(static_cast<size_t>(n));
                               for (int i = 0; i < n; ++i)
                               {
                                   all[static_cast<size_t>(i)] = i;
                               }
                               switch (style)
                               {
                               case 0: return rc::gen::just(all);
                               case 1: std::reverse(all.begin(), all.end()); return rc::gen::just(all);
                               case 2: return rc::gen::map(gen::range<int>(0, n - 1), [](int v) { return std::vector<int>(1, v); });
                               default:
                                   return rc::gen::mapcat(gen::range<int>(1, std::max(1, 2 * n)),
                                                          [n](int len) { return rc::gen::container<std::vector<int>>(static_cast<size_t>(len), gen::range<int>(0, n - 1)); });
                               }
                           });
}

bool valid_lists(const std::vector<std::vector<int>>& lists, int samples)
{
    for (const auto& l : lists)
    {
        if (l.empty())
        {
            return false;
        }
        for (const auto s : l)
        {
            if (s < 0 || s >= samples)
            {
                return false;
            }
        }
    }
    return true;
}

struct dataset_case_t
{
    data_spec_t                   data;
    stack_t                       stack;
    int                           pool{1};
    int                           threads{2}, reps{1};
    std::vector<std::vector<int>> lists; // per thread
    std::vector<std::vector<int>> ops;   // per thread: 0 flatten, 1 select feature, 2 targets, 3 select target
    std::vector<std::vector<int>> args;  // per thread and op: feature
    std::vector<int>              stagger;

    template <class A>
    void io(A& a)
    {
        data.io(a);
        stack.io(a);
        a("pool", pool);
        a("threads", threads);
        a("reps", reps);
        a("lists", lists);
        a("ops", ops);
        a("args", args);
        a("stagger", stagger);
    }
};

rc::Gen<dataset_case_t> gen_dataset_case()
{
    ds::gen_options_t o;
    o.max_samples = 66;
    o.max_inputs  = 9;
    return rc::gen::mapcat(
        rc::gen::pair(ds::gen_data(o), gen::range<int>(2, 8)),
        [](const std::pair<data_spec_t, int>& dt)
        {
            const auto& data    = dt.first;
            const int   threads = dt.second;
            const auto  n       = static_cast<size_t>(threads);
            const auto  oplist  = rc::gen::mapcat(gen::range<int>(1, 6),
                                                  [](int k)
                                                  {
                                                     return rc::gen::container<std::vector<std::pair<int, int>>>(
                                                         static_cast<size_t>(k), rc::gen::pair(rc::gen::element(0, 0, 1, 1, 1, 2, 3), gen::range<int>(0, 1000)));
                                                 });
            return rc::gen::map(rc::gen::tuple(gen_stack(static_cast<int>(data.inputs().size())), gen::range<int>(1, 4), rc::gen::element(1, 2, 5, 20),
                                               rc::gen::container<std::vector<std::vector<int>>>(n, gen_sample_list(data.samples)),
                                               rc::gen::container<std::vector<std::vector<std::pair<int, int>>>>(n, oplist), gen_stagger(threads)),
                                [data, threads](const auto& t)
                                {
                                    dataset_case_t c;
                                    c.data    = data;
                                    c.stack   = std::get<0>(t);
                                    c.pool    = std::get<1>(t);
                                    c.reps    = std::get<2>(t);
                                    c.threads = threads;
                                    c.lists   = std::get<3>(t);
                                    for (const auto& ol : std::get<4>(t))
                                    {
                                        std::vector<int> ops, args;
                                        for (const auto& oa : ol)
                                        {
                                            ops.push_back(oa.first);
                                            args.push_back(oa.second);
                                        }
                                        c.ops.push_back(ops);
                                        c.args.push_back(args);
                                    }
                                    c.stagger = std::get<5>(t);
                                    return c;
                                });
        });
}

struct view_buffers_t
{
    nano::tensor2d_t   flatten;
    nano::tensor4d_t   targets;
    nano::sclass_mem_t sclass;
    nano::mclass_mem_t mclass;
    nano::scalar_mem_t scalar;
    nano::struct_mem_t structured;
};

outcome_t run_view(const nano::dataset_t& dataset, const indices_t& samples, int op, int arg, view_buffers_t& b)
{
    return record(
        [&](std::vector<double>& out)
        {
            const auto shape = [&out](const auto& t)
            {
                for (const auto d : t.dims())
                {
                    out.push_back(static_cast<double>(d));
                }
            };
            const auto emit = [&](const auto& t)
            {
                shape(t);
                append(out, t);
            };
            const auto by_type = [&](const nano::feature_t& feature, const auto& select)
            {
                if (feature.is_sclass())
                {
                    emit(select(b.sclass));
                }
                else if (feature.is_mclass())
                {
                    emit(select(b.mclass));
                }
                else if (feature.is_scalar())
                {
                    emit(select(b.scalar));
                }
                else
                {
                    emit(select(b.structured));
                }
            };
            switch (op)
            {
            case 0: emit(dataset.flatten(samples, b.flatten)); break;
            case 1:
                if (dataset.features() > 0)
                {
                    const auto j = static_cast<tensor_size_t>(arg) % dataset.features();
                    out.push_back(static_cast<double>(j));
                    by_type(dataset.feature(j), [&](auto& buffer) { return dataset.select(samples, j, buffer); });
                }
                break;
            case 2:
                if (dataset.type() != nano::task_type::unsupervised)
                {
                    emit(dataset.targets(samples, b.targets));
                }
                break;
            default:
                if (dataset.type() != nano::task_type::unsupervised)
                {
                    by_type(dataset.target(), [&](auto& buffer) { return dataset.select(samples, buffer); });
                }
                break;
            }
        });
}

verdict_t check_dataset(const dataset_case_t& c, ctx_t& ctx)
{
    const auto n = static_cast<size_t>(c.threads);
    if (!c.data.valid() || !c.stack.valid() || c.threads < 2 || c.threads > 8 || c.reps < 1 || c.reps > 100 || c.pool < 1 || c.pool > 8 || c.lists.size() != n ||
        c.ops.size() != n || c.args.size() != n || !valid_lists(c.lists, c.data.samples))
    {
        return verdict_t::discard("malformed");
    }
    for (size_t t = 0; t < n; ++t)
    {
        if (c.ops[t].size() != c.args[t].size() || c.ops[t].empty())
        {
            return verdict_t::discard("malformed");
        }
    }
    nv::rng_state().store(12345U);
    ::setenv("NANO_VERIF_MAX_THREADS", "8", 1);

    const auto source   = ds::make_datasource(c.data);
    auto       rdataset = nano::dataset_t{*source, static_cast<size_t>(c.pool)};
    try
    {
        add_stack(rdataset, c.stack, static_cast<int>(c.data.inputs().size()));
    }
    catch (const std::exception& e)
    {
        return verdict_t::violation("C18/dataset/exception/add-generator", e.what());
    }
    const nano::dataset_t& dataset = rdataset; // const interface only from here on

    std::vector<indices_t> samples(n);
    for (size_t t = 0; t < n; ++t)
    {
        samples[t] = to_indices(c.lists[t]);
    }

    // alone: every (thread, op) once, with fresh buffers
    std::vector<std::vector<outcome_t>> alone(n);
    size_t                              cells = 0;
    for (size_t t = 0; t < n; ++t)
    {
        view_buffers_t b;
        for (size_t k = 0; k < c.ops[t].size(); ++k)
        {
            alone[t].push_back(run_view(dataset, samples[t], ((c.ops[t][k] % 4) + 4) % 4, std::abs(c.args[t][k]), b));
            cells += alone[t].back().values.size();
        }
    }

    overlap_t                    overlap;
    std::vector<thread_report_t> reports(n);
    run_together(c.threads, c.stagger, c.reps,
                 [&](int t, const rendezvous_t& rendezvous)
                 {
                     const auto     ut  = static_cast<size_t>(t);
                     auto&          rep = reports[ut];
                     view_buffers_t b; // this thread's buffers, re-used across calls
                     for (int r = 0; r < c.reps; ++r)
                     {
                         rendezvous.meet(r);
                         for (size_t k = 0; k < c.ops[ut].size(); ++k)
                         {
                             const int op = ((c.ops[ut][k] % 4) + 4) % 4;
                             outcome_t got;
                             {
                                 const inside_t inside(overlap);
                                 got = run_view(dataset, samples[ut], op, std::abs(c.args[ut][k]), b);
                             }
                             ++rep.calls;
                             if (!rep.bad && !same_outcome(alone[ut][k], got))
                             {
                                 rep.bad   = true;
                                 rep.where = op == 0 ? "flatten" : op == 1 ? "select" : op == 2 ? "targets" : "select-target";
                                 rep.msg   = cat("thread ", t, " repetition ", r, " call ", k, ": ", describe(alone[ut][k], got));
                             }
                         }
                     }
                 });
    for (const auto& rep : reports)
    {
        if (rep.bad)
        {
            return verdict_t::violation(cat("C18/dataset/", rep.where, "-differs"), rep.msg);
        }
    }

    bool threw = false;
    for (const auto& a : alone)
    {
        for (const auto& o : a)
        {
            threw = threw || o.threw;
        }
    }
    ctx.label(cat("overlap:", std::min(overlap.peak.load(), 4), overlap.peak.load() >= 4 ? "+" : ""));
    ctx.label(cat("generators:", c.stack.kind.size()));
    ctx.label_if(dataset.features() == 0, "no-generated-features");
    ctx.label_if(dataset.type() == nano::task_type::unsupervised, "unsupervised");
    ctx.label_if(threw, "view-throws");
    ctx.maximum("peak-in-flight", overlap.peak.load());
    ctx.nontrivial = overlap.peak.load() >= 2 && dataset.features() >= 1 && cells >= 8;
    return verdict_t::ok();
}

// ===================================================================================================
// shared by 4. and 5.: model configuration
// ===================================================================================================
const char* const linear_ids[]   = {"ordinary", "lasso", "ridge", "elastic_net"};
const char* const wlearner_ids[] = {"affine", "stump", "hinge", "dense-table", "kbest-table", "ksplit-table", "dstep-table", "dtree"};
const char* const reg_losses[]   = {"mse", "cauchy", "mae", "pinball"};
const char* const s_losses[]     = {"s-classnll", "s-logistic", "s-squared-hinge", "s-exponential", "s-savage", "s-tangent", "s-hinge"};
const char* const m_losses[]     = {"m-logistic", "m-squared-hinge", "m-exponential", "m-savage", "m-tangent", "m-hinge"};

struct model_cfg_t
{
    int              model{0}; // 0..7 weak learner (wlearner_ids), 8..11 linear (linear_ids), 12 gradient boosting
    int              loss{0};
    double           alpha{0.5};
    int              criterion{2}, dtree_depth{2}, dtree_split{3};
    int              scaling{0}, batch{100};
    std::vector<int> wpool;
    int              wscale{0}, shrinkage{0}, subsample{0};
    double           ratio{1.0};
    int              gb_seed{42}, patience{2};
    double           gb_epsilon{1e-6};
    int              splitter{0}, folds{2}, split_seed{42}, train_per{80};
    int              tuner{0}, tuner_evals{10};
    int              solver_evals{100};
    double           solver_eps{1e-6};

    template <class A>
    void io(A& a)
    {
        a("model", model);
        a("loss", loss);
        a("alpha", alpha);
        a("criterion", criterion);
        a("dtree_depth", dtree_depth);
        a("dtree_split", dtree_split);
        a("scaling", scaling);
        a("batch", batch);
        a("wpool", wpool);
        a("wscale", wscale);
        a("shrinkage", shrinkage);
        a("subsample", subsample);
        a("ratio", ratio);
        a("gb_seed", gb_seed);
        a("patience", patience);
        a("gb_epsilon", gb_epsilon);
        a("splitter", splitter);
        a("folds", folds);
        a("split_seed", split_seed);
        a("train_per", train_per);
        a("tuner", tuner);
        a("tuner_evals", tuner_evals);
        a("solver_evals", solver_evals);
        a("solver_eps", solver_eps);
    }

    bool is_wlearner() const { return model >= 0 && model <= 7; }

    bool is_linear() const { return model >= 8 && model <= 11; }

    bool is_gboost() const { return model == 12; }

    bool valid() const { return model >= 0 && model <= 12 && (!is_gboost() || !wpool.empty()) && loss >= 0; }
};

// everything but `model` (and the pool's content restrictions) is drawn here
rc::Gen<model_cfg_t> gen_model_cfg(int model, bool continuous_only, bool converge)
{
    const auto wl = continuous_only ? rc::gen::element(0, 1, 2, 7, 0, 1, 2, 7, 3) : rc::gen::element(0, 1, 2, 3, 4, 5, 6, 7);
    return rc::gen::map(
        rc::gen::tuple(
            // fits that are compared across thread counts favour the smooth losses (index mod 4 / mod 7 / mod 6 selects the loss)
            rc::gen::tuple(converge ? rc::gen::element(0, 1, 8, 9, 4, 5, 12, 15, 2, 3, 6) : gen::range<int>(0, 41), rc::gen::element(0.5, 0.1, 0.9, 0.25), gen::range<int>(0, 3),
                           gen::range<int>(1, 3), gen::range<int>(1, 6),
                           gen::range<int>(0, 3), rc::gen::element(10, 16, 100, 33)),
            rc::gen::tuple(continuous_only ? rc::gen::oneOf(rc::gen::element(std::vector<int>{0}, std::vector<int>{0, 3}, std::vector<int>{0, 0}),
                                                            rc::gen::mapcat(gen::range<int>(1, 3), [wl](int k) { return rc::gen::container<std::vector<int>>(static_cast<size_t>(k), wl); }))
                                           : rc::gen::mapcat(gen::range<int>(1, 3), [wl](int k) { return rc::gen::container<std::vector<int>>(static_cast<size_t>(k), wl); }),
                           gen::range<int>(0, 1), rc::gen::element(0, 0, 0, 0, 2, 2, 2, 1), rc::gen::element(0, 0, 1, 2, 3, 4), rc::gen::element(1.0, 0.5, 0.8),
                           rc::gen::oneOf(gen::range<int>(0, 1024), gen::range<int>(0, 1024), rc::gen::element(0, 0, 1, 1024)) /* seeds incl. the bounds of the domain */,
                           gen::range<int>(1, 3), rc::gen::element(1e-6, 1e-4, 1e-2)),
            rc::gen::tuple(gen::range<int>(0, 1), rc::gen::element(2, 2, 3), gen::range<int>(0, 1024), rc::gen::element(80, 50, 66), rc::gen::element(0, 0, 0, 1),
                           gen::range<int>(10, 12), converge ? (model == 12 ? rc::gen::element(30, 60, 60) : rc::gen::element(100, 200, 200)) : rc::gen::element(20, 50, 100),
                           converge ? rc::gen::element(1e-7, 1e-8, 1e-9) : rc::gen::element(1e-6, 1e-4, 1e-8))),
        [model](const auto& t)
        {
            const auto& a = std::get<0>(t);
            const auto& b = std::get<1>(t);
            const auto& s = std::get<2>(t);
            model_cfg_t m;
            m.model        = model;
            m.loss         = std::get<0>(a);
            m.alpha        = std::get<1>(a);
            m.criterion    = std::get<2>(a);
            m.dtree_depth  = std::get<3>(a);
            m.dtree_split  = std::get<4>(a);
            m.scaling      = std::get<5>(a);
            m.batch        = std::get<6>(a);
            m.wpool        = std::get<0>(b);
            m.wscale       = std::get<1>(b);
            m.shrinkage    = std::get<2>(b);
            m.subsample    = std::get<3>(b);
            m.ratio        = std::get<4>(b);
            m.gb_seed      = std::get<5>(b);
            m.patience     = std::get<6>(b);
            m.gb_epsilon   = std::get<7>(b);
            m.splitter     = std::get<0>(s);
            m.folds        = std::get<1>(s);
            m.split_seed   = std::get<2>(s);
            m.train_per    = std::get<3>(s);
            m.tuner        = std::get<4>(s);
            m.tuner_evals  = std::get<5>(s);
            m.solver_evals = std::get<6>(s);
            m.solver_eps   = std::get<7>(s);
            return m;
        });
}

nano::rwlearner_t make_wlearner(const model_cfg_t& m, int id)
{
    const auto wid = static_cast<size_t>(((id % 8) + 8) % 8);
    auto       w   = nano::wlearner_t::all().get(wlearner_ids[wid]);
    w->parameter("wlearner::criterion") = static_cast<nano::wlearner_criterion>(((m.criterion % 4) + 4) % 4);
    if (std::getenv("C18_DEBUG") != nullptr)
    {
        w->logger(nano::make_stderr_logger());
    }
    if (wid == 7)
    {
        w->parameter("wlearner::dtree::max_depth") = m.dtree_depth;
        w->parameter("wlearner::dtree::min_split") = m.dtree_split;
    }
    return w;
}

// target_kind: 0 regression, 1 single-label, 2 multi-label
std::string loss_id_of(const model_cfg_t& m, int target_kind)
{
    const auto l = static_cast<size_t>(m.loss);
    return target_kind == 0 ? reg_losses[l % 4] : target_kind == 1 ? s_losses[l % 7] : m_losses[l % 6];
}

nano::rloss_t make_loss(const model_cfg_t& m, int target_kind)
{
    const auto id   = loss_id_of(m, target_kind);
    auto       loss = nano::loss_t::all().get(id);
    if (id == "pinball")
    {
        loss->parameter("loss::pinball::alpha") = m.alpha;
    }
    return loss;
}

nano::ml::params_t make_fit_params(const model_cfg_t& m)
{
    auto splitter                          = nano::splitter_t::all().get(m.splitter == 0 ? "k-fold" : "random");
    splitter->parameter("splitter::folds") = m.folds;
    splitter->parameter("splitter::seed")  = m.split_seed;
    if (m.splitter != 0)
    {
        splitter->parameter("splitter::random::train_per") = m.train_per;
    }
    auto tuner                             = nano::tuner_t::all().get(m.tuner == 0 ? "local-search" : "surrogate");
    tuner->parameter("tuner::max_evals")   = m.tuner_evals;
    auto solver                            = nano::solver_t::all().get("lbfgs");
    solver->parameter("solver::max_evals") = m.solver_evals;
    solver->parameter("solver::epsilon")   = m.solver_eps;
    nano::ml::params_t params;
    params.splitter(*splitter).tuner(*tuner).solver(*solver);
    return params;
}

void remove_logs(const nano::ml::result_t& result)
{
    std::error_code ec;
    if (std::getenv("C18_DEBUG") != nullptr)
    {
        return;
    }
    for (tensor_size_t trial = 0; trial < result.trials(); ++trial)
    {
        for (tensor_size_t fold = 0; fold < result.folds(); ++fold)
        {
            std::filesystem::remove(result.log_path(trial, fold), ec);
        }
    }
    std::filesystem::remove(result.refit_log_path(), ec);
}

// a fitted model behind one interface (const use only after fit)
struct fitted_t
{
    nano::rwlearner_t                     wlearner;
    nano::rlinear_t                       linear;
    std::unique_ptr<nano::gboost_model_t> gboost;
    bool                                  fitted{false};
    tensor_size_t                         nwlearners{0};
    std::vector<int>                      features;
    int                                   trials{0};
    bool                                  converged{true};

    const nano::learner_t& learner() const
    {
        return wlearner ? static_cast<const nano::learner_t&>(*wlearner) : linear ? static_cast<const nano::learner_t&>(*linear) : static_cast<const nano::learner_t&>(*gboost);
    }
};

// fits on all samples of the dataset; throws what the library throws
fitted_t fit_model(const model_cfg_t& m, const nano::dataset_t& dataset, int target_kind, const std::vector<double>& gradients)
{
    fitted_t   f;
    const auto samples = nano::arange(0, dataset.samples());
    if (m.is_wlearner())
    {
        nano::tensor4d_t g(nano::cat_dims(dataset.samples(), dataset.target_dims()));
        for (tensor_size_t i = 0; i < g.size(); ++i)
        {
            g.data()[i] = gradients.empty() ? 0.0 : gradients[static_cast<size_t>(i) % gradients.size()];
        }
        f.wlearner       = make_wlearner(m, m.model);
        const auto score = f.wlearner->fit(dataset, samples, g);
        f.fitted         = score != nano::wlearner_t::no_fit_score();
        f.nwlearners     = 1;
        return f;
    }
    const auto loss   = make_loss(m, target_kind);
    const auto params = make_fit_params(m);
    if (m.is_linear())
    {
        f.linear                               = nano::linear_t::all().get(linear_ids[m.model - 8]);
        f.linear->parameter("linear::batch")   = m.batch;
        f.linear->parameter("linear::scaling") = static_cast<nano::scaling_type>(((m.scaling % 4) + 4) % 4);
        const auto result                      = f.linear->fit(dataset, samples, *loss, params);
        remove_logs(result);
        f.fitted = true;
        f.trials = static_cast<int>(result.trials());
        for (tensor_size_t trial = 0; trial < result.trials(); ++trial)
        {
            for (tensor_size_t fold = 0; fold < result.folds(); ++fold)
            {
                const auto* const r = std::any_cast<nano::linear::result_t>(&result.extra(trial, fold));
                f.converged         = f.converged && r != nullptr && static_cast<nano::solver_status>(static_cast<int>(r->m_statistics(2))) == nano::solver_status::converged;
            }
        }
        const auto* const r = std::any_cast<nano::linear::result_t>(&result.extra());
        f.converged         = f.converged && r != nullptr && static_cast<nano::solver_status>(static_cast<int>(r->m_statistics(2))) == nano::solver_status::converged;
        return f;
    }
    nano::rwlearners_t prototypes;
    for (const auto id : m.wpool)
    {
        prototypes.push_back(make_wlearner(m, id));
    }
    f.gboost = std::make_unique<nano::gboost_model_t>();
    f.gboost->prototypes(std::move(prototypes));
    f.gboost->parameter("gboost::epsilon")         = m.gb_epsilon;
    f.gboost->parameter("gboost::seed")            = m.gb_seed;
    f.gboost->parameter("gboost::batch")           = m.batch;
    f.gboost->parameter("gboost::patience")        = m.patience;
    f.gboost->parameter("gboost::max_rounds")      = 10;
    f.gboost->parameter("gboost::wscale")          = static_cast<nano::gboost_wscale>(((m.wscale % 2) + 2) % 2);
    f.gboost->parameter("gboost::shrinkage")       = static_cast<nano::gboost_shrinkage>(((m.shrinkage % 3) + 3) % 3);
    f.gboost->parameter("gboost::subsample")       = static_cast<nano::gboost_subsample>(((m.subsample % 5) + 5) % 5);
    f.gboost->parameter("gboost::subsample_ratio") = m.ratio;
    const auto result                              = f.gboost->fit(dataset, samples, *loss, params);
    remove_logs(result);
    f.fitted     = true;
    f.trials     = static_cast<int>(result.trials());
    f.nwlearners = static_cast<tensor_size_t>(f.gboost->wlearners().size());
    const auto features = f.gboost->features();
    for (tensor_size_t i = 0; i < features.size(); ++i)
    {
        f.features.push_back(static_cast<int>(features(i)));
    }
    return f;
}

int target_kind_of(const data_spec_t& d)
{
    const auto s = d.spec(d.target);
    return s.is_sclass() ? 1 : s.is_mclass() ? 2 : 0;
}

void add_identity_generators(nano::dataset_t& dataset)
{
    dataset.add<nano::sclass_identity_generator_t>();
    dataset.add<nano::mclass_identity_generator_t>();
    dataset.add<nano::scalar_identity_generator_t>();
    dataset.add<nano::struct_identity_generator_t>();
}

// ===================================================================================================
// 4. predict: concurrent predict() on one shared fitted model (weak learner / linear / gradient boosting)
// ===================================================================================================
struct predict_case_t
{
    data_spec_t                   data;
    model_cfg_t                   cfg;
    int                           pool{1};
    std::vector<double>           gradients;
    int                           threads{2}, reps{1};
    std::vector<std::vector<int>> lists; // per thread
    std::vector<int>              modes; // per thread: 0 predict() returning a tensor, 1 predict() into the thread's own zeroed buffer
    std::vector<int>              stagger, delays;
    int                           rng{1};

    template <class A>
    void io(A& a)
    {
        data.io(a);
        cfg.io(a);
        a("pool", pool);
        a("gradients", gradients);
        a("threads", threads);
        a("reps", reps);
        a("lists", lists);
        a("modes", modes);
        a("stagger", stagger);
        a("delays", delays);
        a("rng", rng);
    }
};

// appends one continuous and one 3-class categorical input so that every weak learner type finds a feature it can use
data_spec_t with_extra_inputs(data_spec_t d, const std::vector<double>& reals, const std::vector<int>& labels)
{
    const auto n = static_cast<size_t>(d.samples);
    d.types.push_back(static_cast<int>(nano::feature_type::float64));
    d.dims.insert(d.dims.end(), {1, 1, 1});
    d.classes.push_back(0);
    d.values.emplace_back(n);
    d.mask.emplace_back(n, 1);
    for (size_t i = 0; i < n; ++i)
    {
        d.values.back()[i] = reals[i % reals.size()];
    }
    d.types.push_back(static_cast<int>(nano::feature_type::sclass));
    d.dims.insert(d.dims.end(), {1, 1, 1});
    d.classes.push_back(3);
    d.values.emplace_back(n);
    d.mask.emplace_back(n, 1);
    for (size_t i = 0; i < n; ++i)
    {
        d.values.back()[i] = static_cast<double>(((labels[i % labels.size()] % 3) + 3) % 3);
    }
    if (d.target >= 0 && d.spec(d.target).is_sclass() && d.spec(d.target).classes < 2)
    {
        d.classes[static_cast<size_t>(d.target)] = 2; // the single-label losses need two classes
    }
    return d;
}

rc::Gen<predict_case_t> gen_predict_case()
{
    // weak learners 8 : linear 4 : boosting 4
    return rc::gen::mapcat(
        rc::gen::tuple(rc::gen::element(0, 1, 2, 3, 4, 5, 6, 7, 8, 8, 9, 10, 11, 12, 12, 12, 12), gen::range<int>(2, 8), gen::range<int>(1, 4)),
        [](const std::tuple<int, int, int>& mtk)
        {
            const int model   = std::get<0>(mtk);
            const int threads = std::get<1>(mtk);
            ds::gen_options_t o;
            o.min_samples         = 20;
            o.max_samples         = 60;
            o.min_inputs          = 1;
            o.max_inputs          = 4;
            o.allow_integer_types = false;
            o.allow_missing       = model < 8 || model == 12; // a missing input makes every linear prediction NaN
            o.allow_struct        = model != 12;
            o.max_classes         = 4;
            o.target_kind         = std::get<2>(mtk);
            return rc::gen::mapcat(
                ds::gen_data(o),
                [=](const data_spec_t& d0)
                {
                    const auto n  = static_cast<size_t>(d0.samples);
                    const auto nt = static_cast<size_t>(threads);
                    return rc::gen::map(
                        rc::gen::tuple(gen::vec(n, 3.0), rc::gen::container<std::vector<int>>(n, gen::range<int>(0, 2)), gen_model_cfg(model, false, false),
                                       gen::range<int>(1, 4), gen::vec(64, 2.0), rc::gen::element(1, 2, 5),
                                       rc::gen::container<std::vector<std::vector<int>>>(nt, gen_sample_list(d0.samples)),
                                       rc::gen::container<std::vector<int>>(nt, gen::range<int>(0, 1)), gen_stagger(threads), gen_delays(), gen::range<int>(1, 1 << 20)),
                        [d0, threads](const auto& t)
                        {
                            predict_case_t c;
                            c.data      = with_extra_inputs(d0, std::get<0>(t), std::get<1>(t));
                            c.cfg       = std::get<2>(t);
                            c.pool      = std::get<3>(t);
                            c.gradients = std::get<4>(t);
                            c.reps      = std::get<5>(t);
                            c.threads   = threads;
                            c.lists     = std::get<6>(t);
                            c.modes     = std::get<7>(t);
                            c.stagger   = std::get<8>(t);
                            c.delays    = std::get<9>(t);
                            c.rng       = std::get<10>(t);
                            return c;
                        });
                });
        });
}

outcome_t run_predict(const nano::learner_t& model, const nano::dataset_t& dataset, const indices_t& samples, int mode, nano::tensor4d_t& buffer)
{
    return record(
        [&](std::vector<double>& out)
        {
            if (mode == 0)
            {
                const auto outputs = model.predict(dataset, samples);
                append(out, outputs);
            }
            else
            {
                buffer.resize(nano::cat_dims(samples.size(), dataset.target_dims()));
                buffer.zero();
                model.predict(dataset, samples, buffer.tensor());
                append(out, buffer);
            }
        });
}

verdict_t check_predict(const predict_case_t& c, ctx_t& ctx)
{
    const auto n = static_cast<size_t>(c.threads);
    if (!c.data.valid() || c.data.target < 0 || !c.cfg.valid() || c.threads < 2 || c.threads > 8 || c.reps < 1 || c.reps > 50 || c.pool < 1 || c.pool > 8 ||
        c.lists.size() != n || c.modes.size() != n || !valid_lists(c.lists, c.data.samples) || c.data.samples < 8 ||
        (c.data.spec(c.data.target).is_sclass() && c.data.spec(c.data.target).classes < 2))
    {
        return verdict_t::discard("malformed");
    }
    nv::rng_state().store(static_cast<uint64_t>(c.rng) * 2U + 1U);
    ::setenv("NANO_VERIF_MAX_THREADS", "4", 1);

    const auto source   = ds::make_datasource(c.data);
    auto       rdataset = nano::dataset_t{*source, static_cast<size_t>(c.pool)};
    add_identity_generators(rdataset);
    const nano::dataset_t& dataset = rdataset;

    const auto& cfg = c.cfg;

    fitted_t fitted;
    try
    {
        fitted = fit_model(cfg, dataset, target_kind_of(c.data), c.gradients);
    }
    catch (const std::exception&)
    {
        return verdict_t::discard("fit-rejected"); // fitting is C10/C11's business; here only fitted models matter
    }
    if (!fitted.fitted)
    {
        return verdict_t::discard("weak-learner-found-no-feature");
    }
    const nano::learner_t& model = fitted.learner(); // const interface only from here on

    std::vector<indices_t> samples(n);
    for (size_t t = 0; t < n; ++t)
    {
        samples[t] = to_indices(c.lists[t]);
    }

    // alone
    std::vector<outcome_t> alone(n);
    for (size_t t = 0; t < n; ++t)
    {
        nano::tensor4d_t buffer;
        alone[t] = run_predict(model, dataset, samples[t], c.modes[t] & 1, buffer);
    }

    // evaluate(): the const entry point that runs the model's predictions batch by batch on the dataset's OWN pool (one caller):
    // errors and loss values are those of a dataset without worker threads, bit for bit. (Linear models with linear::batch < 100
    // are left out: there the prediction of a 100-sample batch submits to the pool it runs on, which dead-locks - DESIGN.md
    // section 9, observations.)
    if (c.pool >= 2 && (!cfg.is_linear() || cfg.batch >= 100))
    {
        std::vector<int> all;
        while (all.size() < 260)
        {
            for (const auto& list : c.lists)
            {
                all.insert(all.end(), list.begin(), list.end());
            }
        }
        const auto lsamples = to_indices(all);
        const auto loss     = make_loss(cfg, target_kind_of(c.data));
        auto       rserial  = nano::dataset_t{*source, 1U};
        add_identity_generators(rserial);
        const nano::dataset_t& serial = rserial;
        const auto run_evaluate = [&](const nano::dataset_t& ds)
        {
            return record([&](std::vector<double>& out) { append(out, model.evaluate(ds, lsamples, *loss)); });
        };
        const auto e1 = run_evaluate(serial);
        watch_dataset_pool(&dataset);
        install_delays(c.delays);
        const auto en = run_evaluate(dataset);
        remove_delays();
        watch_dataset_pool(nullptr);
        if (!same_outcome(e1, en))
        {
            return verdict_t::violation(cat("C18/predict/evaluate/", e1.threw != en.threw ? "exception-differs" : "result-differs"),
                                        cat("dataset pool 1 against ", c.pool, ": ", describe(e1, en)));
        }
        ctx.label("evaluate-on-the-dataset-pool");
    }

    overlap_t                    overlap;
    std::vector<thread_report_t> reports(n);
    watch_dataset_pool(&dataset);
    install_delays(c.delays);
    run_together(c.threads, c.stagger, c.reps,
                 [&](int t, const rendezvous_t& rendezvous)
                 {
                     const auto       ut  = static_cast<size_t>(t);
                     auto&            rep = reports[ut];
                     nano::tensor4d_t buffer;
                     for (int r = 0; r < c.reps; ++r)
                     {
                         rendezvous.meet(r);
                         outcome_t got;
                         {
                             const inside_t inside(overlap);
                             got = run_predict(model, dataset, samples[ut], c.modes[ut] & 1, buffer);
                         }
                         ++rep.calls;
                         if (!rep.bad && !same_outcome(alone[ut], got))
                         {
                             rep.bad   = true;
                             rep.where = alone[ut].threw != got.threw ? "exception-differs" : "result-differs";
                             rep.msg   = cat("thread ", t, " repetition ", r, ": ", describe(alone[ut], got));
                         }
                     }
                 });
    remove_delays();
    watch_dataset_pool(nullptr);

    const std::string kind = c.cfg.is_wlearner() ? std::string(wlearner_ids[c.cfg.model]) : c.cfg.is_linear() ? std::string(linear_ids[c.cfg.model - 8]) : std::string("gboost");
    for (const auto& rep : reports)
    {
        if (rep.bad)
        {
            return verdict_t::violation(cat("C18/predict/", c.cfg.is_wlearner() ? "wlearner" : c.cfg.is_linear() ? "linear" : "gboost", "/", rep.where),
                                        cat("model ", kind, ": ", rep.msg));
        }
    }

    bool threw = false, nonzero = false;
    for (const auto& a : alone)
    {
        threw = threw || a.threw;
        for (const auto v : a.values)
        {
            nonzero = nonzero || (v != 0.0 && !std::isnan(v));
        }
    }
    ctx.label(cat("model:", kind));
    ctx.label(cat("overlap:", std::min(overlap.peak.load(), 4), overlap.peak.load() >= 4 ? "+" : ""));
    ctx.label_if(threw, "predict-throws");
    ctx.label_if(c.cfg.is_gboost() && fitted.nwlearners == 0, "gboost-bias-only");
    ctx.label_if(g_tasks_all.peak.load() >= 2, "dataset-pool-tasks-overlap");
    ctx.maximum("peak-in-flight", overlap.peak.load());
    ctx.nontrivial = overlap.peak.load() >= 2 && nonzero && !threw;
    return verdict_t::ok();
}

// ===================================================================================================
// 5. fit: the same fit under different thread configurations gives the same model
// ===================================================================================================
struct fit_case_t
{
    int                 samples{30}, features{2};
    std::vector<double> inputs; // samples x features, no ties within a column
    int                 classes{0}; // 0: scalar regression, >= 2: single-label classification
    std::vector<double> coeffs, noise;
    double              level{0.1};
    model_cfg_t         cfg;
    std::vector<int>    configs; // 3 * dataset-pool code + cap code, codes 0,1,2 = 1,2,16 threads; the first one is the reference
    std::vector<int>    delays;
    int                 rng{1};

    template <class A>
    void io(A& a)
    {
        a("samples", samples);
        a("features", features);
        a("inputs", inputs);
        a("classes", classes);
        a("coeffs", coeffs);
        a("noise", noise);
        a("level", level);
        cfg.io(a);
        a("configs", configs);
        a("delays", delays);
        a("rng", rng);
    }
};

rc::Gen<fit_case_t> gen_fit_case()
{
    // linear 6 (ordinary and ridge twice: their objective is smooth) : boosting 6
    return rc::gen::mapcat(
        rc::gen::tuple(rc::gen::element(8, 10, 8, 10, 9, 11, 12, 12, 12, 12, 12, 12), gen::range<int>(30, 80), gen::range<int>(2, 6), rc::gen::element(0, 0, 0, 2, 2, 3)),
        [](const std::tuple<int, int, int, int>& msfk)
        {
            const int  model = std::get<0>(msfk), n = std::get<1>(msfk), f = std::get<2>(msfk), classes = std::get<3>(msfk);
            const int  K     = std::max(1, classes);
            // the serial reference (1,1) + two other configurations, at least one of them with real concurrency
            const auto cfgs  = rc::gen::map(rc::gen::pair(rc::gen::element(4, 5, 7, 8, 4, 8), gen::range<int>(1, 8)),
                                            [](const std::pair<int, int>& ab) { return std::vector<int>{0, ab.first, ab.second}; });
            // the data values are not shrunk: a smaller value is not a simpler fit, and every shrink candidate costs several fits
            return rc::gen::map(rc::gen::tuple(rc::gen::noShrink(gen::vec(static_cast<size_t>(n * f), 2.0)), rc::gen::noShrink(gen::vec(static_cast<size_t>(2 * K * f), 1.0)),
                                               rc::gen::noShrink(rc::gen::container<std::vector<double>>(static_cast<size_t>(n * K), gen::normal())), gen::real(0.05, 1.0),
                                               gen_model_cfg(model, true, true), cfgs, gen_delays(), gen::range<int>(1, 1 << 20)),
                                [=](const auto& t)
                                {
                                    fit_case_t c;
                                    c.samples  = n;
                                    c.features = f;
                                    c.classes  = classes;
                                    c.inputs   = std::get<0>(t);
                                    c.coeffs   = std::get<1>(t);
                                    c.noise    = std::get<2>(t);
                                    c.level    = std::get<3>(t);
                                    c.cfg      = std::get<4>(t);
                                    c.configs  = std::get<5>(t);
                                    c.delays   = std::get<6>(t);
                                    c.rng      = std::get<7>(t);
                                    return c;
                                });
        });
}

// continuous inputs + a planted noisy target (scores_k = sum_j a_kj x_j + b_kj sign(x_j) + noise)
data_spec_t make_fit_data(const fit_case_t& c)
{
    const int   K = std::max(1, c.classes);
    data_spec_t d;
    d.samples = c.samples;
    d.target  = c.features;
    for (int j = 0; j < c.features; ++j)
    {
        d.types.push_back(static_cast<int>(nano::feature_type::float64));
        d.dims.insert(d.dims.end(), {1, 1, 1});
        d.classes.push_back(0);
        d.values.emplace_back(static_cast<size_t>(c.samples));
        d.mask.emplace_back(static_cast<size_t>(c.samples), 1);
        for (int i = 0; i < c.samples; ++i)
        {
            d.values.back()[static_cast<size_t>(i)] = c.inputs[static_cast<size_t>(i * c.features + j)];
        }
    }
    d.types.push_back(static_cast<int>(c.classes >= 2 ? nano::feature_type::sclass : nano::feature_type::float64));
    d.dims.insert(d.dims.end(), {1, 1, 1});
    d.classes.push_back(c.classes >= 2 ? c.classes : 0);
    d.values.emplace_back(static_cast<size_t>(c.samples));
    d.mask.emplace_back(static_cast<size_t>(c.samples), 1);
    for (int i = 0; i < c.samples; ++i)
    {
        std::vector<double> score(static_cast<size_t>(K), 0.0);
        for (int k = 0; k < K; ++k)
        {
            double v = 0.0;
            for (int j = 0; j < c.features; ++j)
            {
                const auto x = c.inputs[static_cast<size_t>(i * c.features + j)];
                v += c.coeffs[static_cast<size_t>((k * c.features + j) * 2 + 0) % c.coeffs.size()] * x;
                v += c.coeffs[static_cast<size_t>((k * c.features + j) * 2 + 1) % c.coeffs.size()] * (x > 0.0 ? 1.0 : -1.0);
            }
            score[static_cast<size_t>(k)] = v + c.level * c.noise[static_cast<size_t>(i * K + k) % c.noise.size()];
        }
        d.values.back()[static_cast<size_t>(i)] =
            c.classes >= 2 ? static_cast<double>(std::max_element(score.begin(), score.end()) - score.begin()) : score[0];
    }
    return d;
}

struct fit_outcome_t
{
    bool                threw{false};
    std::string         what;
    std::vector<double> predictions;
    tensor_size_t       nwlearners{0};
    std::vector<int>    features;
    int                 trials{0};
    bool                converged{true};
    int                 peak_outer{0}, peak_all{0};
};

int threads_of(int code)
{
    return code == 0 ? 1 : code == 1 ? 2 : 16;
}

verdict_t check_fit(const fit_case_t& c, ctx_t& ctx)
{
    if (c.samples < 16 || c.samples > 500 || c.features < 1 || c.features > 16 || c.inputs.size() != static_cast<size_t>(c.samples * c.features) ||
        c.coeffs.empty() || c.noise.empty() || !(c.classes == 0 || (c.classes >= 2 && c.classes <= 6)) || !c.cfg.valid() || c.cfg.is_wlearner() ||
        c.configs.size() < 2 || c.configs.size() > 4)
    {
        return verdict_t::discard("malformed");
    }
    for (const auto code : c.configs)
    {
        if (code < 0 || code > 8)
        {
            return verdict_t::discard("malformed");
        }
    }
    // domain: continuous features without ties (feature selection must not be decided by rounding)
    for (int j = 0; j < c.features; ++j)
    {
        std::vector<double> column;
        for (int i = 0; i < c.samples; ++i)
        {
            column.push_back(c.inputs[static_cast<size_t>(i * c.features + j)]);
        }
        std::sort(column.begin(), column.end());
        if (std::adjacent_find(column.begin(), column.end()) != column.end())
        {
            return verdict_t::discard("ties-in-a-feature");
        }
    }
    const auto data        = make_fit_data(c);
    const int  target_kind = c.classes >= 2 ? 1 : 0;
    if (!data.valid())
    {
        return verdict_t::discard("malformed");
    }

    const auto fit_config = [&](const int code)
    {
        const int pool = threads_of(code / 3), cap = threads_of(code % 3);
        // the state of the default seeds (stand-in for std::random_device) differs between the configurations on purpose:
        // every seed of a fit is explicit, so a fitted model must not depend on it
        nv::rng_state().store(static_cast<uint64_t>(c.rng) * 2U + 1U + 1000003U * static_cast<uint64_t>(code + 1));
        ::setenv("NANO_VERIF_MAX_THREADS", cat(cap).c_str(), 1);

        fit_outcome_t o;
        {
            const auto source   = ds::make_datasource(data);
            auto       rdataset = nano::dataset_t{*source, static_cast<size_t>(pool)};
            rdataset.add<nano::scalar_identity_generator_t>();
            const nano::dataset_t& dataset = rdataset;

            watch_dataset_pool(&dataset);
            install_delays(c.delays);
            try
            {
                const auto fitted = fit_model(c.cfg, dataset, target_kind, {});
                const auto all    = nano::arange(0, dataset.samples());
                append(o.predictions, fitted.learner().predict(dataset, all));
                o.nwlearners = fitted.nwlearners;
                o.features   = fitted.features;
                o.trials     = fitted.trials;
                o.converged  = fitted.converged;
            }
            catch (const std::exception& e)
            {
                o.threw = true;
                o.what  = e.what();
            }
            o.peak_outer = g_tasks_outer.peak.load();
            o.peak_all   = g_tasks_all.peak.load();
            remove_delays();
            watch_dataset_pool(nullptr);
        } // the dataset (and its pool) is destroyed before the next configuration
        ::setenv("NANO_VERIF_MAX_THREADS", "8", 1);
        return o;
    };

    std::vector<fit_outcome_t> outcomes;
    for (const auto code : c.configs)
    {
        outcomes.push_back(fit_config(code));
    }

    const std::string kind  = c.cfg.is_linear() ? std::string(linear_ids[c.cfg.model - 8]) : std::string("gboost");
    const std::string group = c.cfg.is_linear() ? "linear" : "gboost";
    const auto&       ref   = outcomes.front();
    const auto describe_config = [&](size_t k) { return cat("dataset pool ", threads_of(c.configs[k] / 3), " + NANO_VERIF_MAX_THREADS ", threads_of(c.configs[k] % 3)); };

    // deviation of one outcome from the reference: structural (exception / weak learners / selected features / shape) or
    // numeric (largest prediction difference in units of the tolerance 1e-5 * max(1, max|prediction|))
    struct deviation_t
    {
        std::string structural; // empty: none
        double      ratio{0.0};
    };
    const auto deviation_of = [&](const fit_outcome_t& o)
    {
        deviation_t d;
        if (o.threw != ref.threw)
        {
            d.structural = "exception-differs";
            return d;
        }
        if (ref.threw)
        {
            return d;
        }
        if (c.cfg.is_gboost() && (o.nwlearners != ref.nwlearners || o.features != ref.features))
        {
            d.structural = "selected-features-differ";
            return d;
        }
        if (o.predictions.size() != ref.predictions.size())
        {
            d.structural = "prediction-shape";
            return d;
        }
        double scale = 1.0;
        for (const auto p : ref.predictions)
        {
            scale = std::isfinite(p) ? std::max(scale, std::fabs(p)) : scale;
        }
        for (size_t i = 0; i < o.predictions.size(); ++i)
        {
            const auto a = ref.predictions[i], b = o.predictions[i];
            if (std::isfinite(a) && std::isfinite(b))
            {
                d.ratio = std::max(d.ratio, std::fabs(a - b) / (1e-5 * scale));
            }
            else if (!((std::isnan(a) && std::isnan(b)) || a == b))
            {
                d.ratio = 1e30; // finite in one configuration, not in the other
            }
        }
        return d;
    };
    const auto describe_outcome = [&](const fit_outcome_t& o)
    {
        return o.threw ? "threw " + o.what : c.cfg.is_gboost() ? cat(o.nwlearners, " weak learners on ", o.features.size(), " features") : std::string("fitted");
    };

    // Which comparisons the property supports (notes/C18.md, "domain of the fit comparison"):
    //  * a non-smooth objective (mae / pinball / hinge losses, L1 regularisation) makes the line-search discontinuous in
    //    its inputs: re-association noise of 1e-16 in a function value decides secant steps (observed: steps of 1e14), so
    //    "up to floating-point re-association" does not bound the difference.  Such fits are run for the race check
    //    (ThreadSanitizer) and for exceptions only.
    const auto loss        = make_loss(c.cfg, target_kind);
    const bool l1          = c.cfg.model == 9 || c.cfg.model == 11; // lasso, elastic net
    //  * weak learners that score PARTITIONS of the samples (stump, hinge, decision tree) routinely meet candidates that
    //    are tied in exact arithmetic (two features that split a small node / a bootstrap sample the same way, perfect
    //    fits with rss = 0 up to rounding): the winner is decided by rounding noise of 1e-13 in the scores, hence by the
    //    re-association noise in the gradients.  Boosting with such learners is run for the race check only; the
    //    schedule dependence of the weak learners themselves is decided bit-exactly by the "wfit" sub-check.
    const bool partitions  = c.cfg.is_gboost() && std::any_of(c.cfg.wpool.begin(), c.cfg.wpool.end(), [](int id) { const int w = ((id % 8) + 8) % 8; return w == 1 || w == 2 || w == 7; });
    const bool comparable  = loss->smooth() && !l1 && !partitions;
    //  * a fit whose solver stopped WITHOUT converging (budget exhausted; typically a separable classification problem under
    //    the exponential / logistic losses, whose minimiser is at infinity: |prediction| ~ 1e3 and growing) returns an
    //    arbitrary iterate of a diverging path; re-association noise is amplified along that path (observed: 1e-3
    //    relative, different from run to run with the same pool).  The NUMERIC comparison needs both fits converged; the
    //    structural one (exception, weak learners, selected features) does not.
    bool unconverged_skipped = false;

    double      worst = 0.0;
    size_t      worst_at = 0;
    std::string structural;
    for (size_t k = 1; k < outcomes.size(); ++k)
    {
        auto d = deviation_of(outcomes[k]);
        if (d.structural.empty() && !(ref.converged && outcomes[k].converged))
        {
            unconverged_skipped = unconverged_skipped || d.ratio > 0.0;
            ctx.maximum(cat("deviation-unconverged/", kind), d.ratio);
            d.ratio = 0.0;
        }
        if (!d.structural.empty() && structural.empty())
        {
            structural = d.structural;
            worst_at   = k;
        }
        if (structural.empty() && d.ratio > worst)
        {
            worst    = d.ratio;
            worst_at = k;
        }
    }
    const auto cls = cat(kind, (loss->smooth() && !l1) ? "" : "/nonsmooth", partitions ? "/partition-learners" : "");
    ctx.maximum(cat("deviation/", cls), structural.empty() ? worst : 1e9);

    if (comparable && (!structural.empty() || worst > 1.0)) // 1e-5 relative is the property's own bound: no further band
    {
        const auto sig = cat("C18/fit/", group, "/", structural.empty() ? "predictions-differ" : structural);
        const auto msg = cat(kind, " loss ", loss_id_of(c.cfg, target_kind), ": ", describe_config(0), " ", describe_outcome(ref), "; ", describe_config(worst_at), " ",
                             describe_outcome(outcomes[worst_at]), structural.empty() ? cat("; deviation = ", worst, " x (1e-5 relative)") : std::string(),
                             "; solver converged: ", ref.converged ? "yes" : "no", " / ", outcomes[worst_at].converged ? "yes" : "no", "; max|prediction| ",
                             ref.predictions.empty() ? 0.0 : std::fabs(*std::max_element(ref.predictions.begin(), ref.predictions.end(), [](double a, double b) { return std::fabs(a) < std::fabs(b); })));
        return verdict_t::violation(sig, msg);
    }
    if (comparable && worst > 1.0)
    {
        return verdict_t::borderline(cat("fit/", kind, "/predictions"));
    }

    int  peak_outer = 0, peak_all = 0;
    bool converged = true, nonzero = false;
    for (const auto& o : outcomes)
    {
        peak_outer = std::max(peak_outer, o.peak_outer);
        peak_all   = std::max(peak_all, o.peak_all);
        converged  = converged && o.converged;
    }
    for (const auto p : ref.predictions)
    {
        nonzero = nonzero || (std::isfinite(p) && p != 0.0);
    }
    bool distinct_threads = false;
    for (size_t k = 1; k < c.configs.size(); ++k)
    {
        distinct_threads = distinct_threads || c.configs[k] != c.configs[0];
    }
    ctx.label(cat("model:", kind));
    ctx.label(cat("loss:", loss_id_of(c.cfg, target_kind)));
    ctx.label_if(ref.threw, "fit-throws");
    ctx.label_if(!converged, "solver-not-converged-somewhere");
    ctx.label_if(comparable && unconverged_skipped, "numeric-comparison-skipped(unconverged)");
    ctx.label_if(comparable && converged, "fit-compared-numerically");
    ctx.label_if(peak_outer >= 2, "fold-trial-tasks-overlap");
    ctx.label_if(peak_all >= 2, "pool-tasks-overlap");
    ctx.label_if(c.cfg.is_gboost() && ref.nwlearners == 0, "gboost-bias-only");
    ctx.label_if(c.cfg.is_gboost() && ref.nwlearners >= 2, "gboost-2+-weak-learners");
    ctx.label_if(ref.trials > 1, "tuned");
    ctx.label(comparable ? "models-compared" : partitions ? "partition-scoring-learners:race-check-only" : "non-smooth-objective:race-check-only");
    for (size_t k = 0; k < c.configs.size(); ++k)
    {
        ctx.label(cat("config:", threads_of(c.configs[k] / 3), "x", threads_of(c.configs[k] % 3)));
    }
    ctx.maximum("peak-fold-trial-tasks", peak_outer);
    ctx.nontrivial = !ref.threw && comparable && distinct_threads && peak_outer >= 2 && nonzero && (!c.cfg.is_gboost() || ref.nwlearners >= 1);
    return verdict_t::ok();
}
// ===================================================================================================
// 6. wfit: fitting ONE weak learner on a shared dataset gives the same learner whatever the dataset's pool size
//    (the gradients are an input, every per-feature score is computed by one thread: no floating-point re-association
//    is involved, so the comparison is bit-exact)
// ===================================================================================================
struct wfit_case_t
{
    int                 samples{20}, features{2};
    std::vector<double> inputs; // samples x features (before the planted duplicates)
    std::vector<int>    dup;    // per feature: 0 independent, 1 = 3*previous+0.5, 2 = previous^3 (same order => same partitions)
    int                 cats{0};
    std::vector<int>    labels; // samples x cats, 3 classes
    int                 catdup{0}; // the second categorical feature is a relabelled copy of the first one
    int                 tdim{1};
    std::vector<double> gradients;
    int                 grad_style{0}; // 0 reals, 1 sign only, 2 three values
    int                 wlearner{1}, criterion{0}, dtree_depth{2}, dtree_split{3};
    std::vector<int>    excluded; // samples not used for the fit
    std::vector<int>    pools;    // codes 0,1,2 = 1,2,16 threads; the first one (serial) is the reference
    int                 reps{3};
    std::vector<int>    delays;
    std::vector<int>    missing; // cells (sample * #input features + feature, continuous features first) without a value

    template <class A>
    void io(A& a)
    {
        if constexpr (std::is_same_v<A, verif::reader_t>)
        {
            if (a.has("missing")) // absent in replay files written before missing values were generated
            {
                a("missing", missing);
            }
        }
        else
        {
            a("missing", missing);
        }
        a("samples", samples);
        a("features", features);
        a("inputs", inputs);
        a("dup", dup);
        a("cats", cats);
        a("labels", labels);
        a("catdup", catdup);
        a("tdim", tdim);
        a("gradients", gradients);
        a("grad_style", grad_style);
        a("wlearner", wlearner);
        a("criterion", criterion);
        a("dtree_depth", dtree_depth);
        a("dtree_split", dtree_split);
        a("excluded", excluded);
        a("pools", pools);
        a("reps", reps);
        a("delays", delays);
    }
};

rc::Gen<wfit_case_t> gen_wfit_case()
{
    return rc::gen::mapcat(
        rc::gen::tuple(gen::range<int>(0, 7), rc::gen::oneOf(gen::range<int>(6, 16), gen::range<int>(12, 60)), gen::range<int>(2, 6), gen::range<int>(0, 2),
                       rc::gen::element(1, 1, 2)),
        [](const std::tuple<int, int, int, int, int>& wnfct)
        {
            const int  w = std::get<0>(wnfct), n = std::get<1>(wnfct), f = std::get<2>(wnfct), tdim = std::get<4>(wnfct);
            const int  cats = (w >= 3 && w <= 6) ? std::max(1, std::get<3>(wnfct)) : std::get<3>(wnfct); // the look-up tables need a categorical feature
            const auto excluded = rc::gen::oneOf(rc::gen::just(std::vector<int>{}),
                                                 rc::gen::mapcat(gen::range<int>(0, n / 3), [n](int k) { return rc::gen::container<std::vector<int>>(static_cast<size_t>(k), gen::range<int>(0, n - 1)); }));
            return rc::gen::map(
                rc::gen::tuple(rc::gen::noShrink(gen::vec(static_cast<size_t>(n * f), 2.0)), rc::gen::container<std::vector<int>>(static_cast<size_t>(f), rc::gen::element(0, 0, 1, 2)),
                               rc::gen::container<std::vector<int>>(static_cast<size_t>(n * std::max(1, cats)), gen::range<int>(0, 2)), gen::range<int>(0, 1),
                               rc::gen::noShrink(gen::vec(static_cast<size_t>(n * tdim), 2.0)), gen::range<int>(0, 2),
                               rc::gen::tuple(gen::range<int>(0, 3), gen::range<int>(1, 3), gen::range<int>(1, 6)), excluded,
                               rc::gen::element(std::vector<int>{0, 1}, std::vector<int>{0, 2}, std::vector<int>{0, 1, 2}), rc::gen::element(1, 3, 10, 20), gen_delays(),
                               rc::gen::oneOf(rc::gen::just(std::vector<int>{}),
                                              rc::gen::mapcat(gen::range<int>(1, std::max(1, n * (f + cats) / 5)), [=](int k)
                                                              { return rc::gen::container<std::vector<int>>(static_cast<size_t>(k), gen::range<int>(0, n * (f + cats) - 1)); }))),
                [=](const auto& t)
                {
                    wfit_case_t c;
                    c.samples     = n;
                    c.features    = f;
                    c.cats        = cats;
                    c.tdim        = tdim;
                    c.wlearner    = w;
                    c.inputs      = std::get<0>(t);
                    c.dup         = std::get<1>(t);
                    c.labels      = std::get<2>(t);
                    c.catdup      = std::get<3>(t);
                    c.gradients   = std::get<4>(t);
                    c.grad_style  = std::get<5>(t);
                    c.criterion   = std::get<0>(std::get<6>(t));
                    c.dtree_depth = std::get<1>(std::get<6>(t));
                    c.dtree_split = std::get<2>(std::get<6>(t));
                    c.excluded    = std::get<7>(t);
                    c.pools       = std::get<8>(t);
                    c.reps        = std::get<9>(t);
                    c.delays      = std::get<10>(t);
                    c.missing     = std::get<11>(t);
                    return c;
                });
        });
}

struct wfit_outcome_t
{
    outcome_t        call;  // score, then the predictions on all samples
    std::vector<int> features;
    bool             fitted{false};
    double           score{0.0};
};

verdict_t check_wfit(const wfit_case_t& c, ctx_t& ctx)
{
    if (c.samples < 4 || c.samples > 500 || c.features < 1 || c.features > 16 || c.inputs.size() != static_cast<size_t>(c.samples * c.features) ||
        c.dup.size() != static_cast<size_t>(c.features) || c.cats < 0 || c.cats > 2 || c.labels.size() < static_cast<size_t>(c.samples * c.cats) || c.tdim < 1 ||
        c.tdim > 4 || c.gradients.empty() || c.pools.size() < 2 || c.pools.size() > 4 || c.reps < 1 || c.reps > 100 || c.wlearner < 0 || c.wlearner > 7)
    {
        return verdict_t::discard("malformed");
    }
    for (const auto code : c.pools)
    {
        if (code < 0 || code > 2)
        {
            return verdict_t::discard("malformed");
        }
    }
    nv::rng_state().store(12345U);
    ::setenv("NANO_VERIF_MAX_THREADS", "16", 1);

    // the data: continuous features (some of them monotone transforms of their predecessor), categorical ones, a dummy target
    data_spec_t d;
    d.samples = c.samples;
    const auto n = static_cast<size_t>(c.samples);
    for (int j = 0; j < c.features; ++j)
    {
        d.types.push_back(static_cast<int>(nano::feature_type::float64));
        d.dims.insert(d.dims.end(), {1, 1, 1});
        d.classes.push_back(0);
        d.values.emplace_back(n);
        d.mask.emplace_back(n, 1);
        for (size_t i = 0; i < n; ++i)
        {
            const auto own  = c.inputs[i * static_cast<size_t>(c.features) + static_cast<size_t>(j)];
            const auto prev = j > 0 ? d.values[static_cast<size_t>(j - 1)][i] : 0.0;
            d.values.back()[i] = (j == 0 || c.dup[static_cast<size_t>(j)] == 0) ? own : c.dup[static_cast<size_t>(j)] == 1 ? 3.0 * prev + 0.5 : prev * prev * prev;
        }
    }
    for (int k = 0; k < c.cats; ++k)
    {
        d.types.push_back(static_cast<int>(nano::feature_type::sclass));
        d.dims.insert(d.dims.end(), {1, 1, 1});
        d.classes.push_back(3);
        d.values.emplace_back(n);
        d.mask.emplace_back(n, 1);
        for (size_t i = 0; i < n; ++i)
        {
            const auto own   = ((c.labels[i * static_cast<size_t>(c.cats) + static_cast<size_t>(k)] % 3) + 3) % 3;
            const auto first = ((c.labels[i * static_cast<size_t>(c.cats)] % 3) + 3) % 3;
            d.values.back()[i] = static_cast<double>((k == 1 && c.catdup != 0) ? (first + 1) % 3 : own);
        }
    }
    for (const auto cell : c.missing)
    {
        const int nf = c.features + c.cats;
        if (cell >= 0 && cell < c.samples * nf)
        {
            d.mask[static_cast<size_t>(cell % nf)][static_cast<size_t>(cell / nf)] = 0;
        }
    }
    d.target = static_cast<int>(d.types.size());
    d.types.push_back(static_cast<int>(nano::feature_type::float64));
    d.dims.insert(d.dims.end(), {c.tdim, 1, 1});
    d.classes.push_back(0);
    d.values.emplace_back(n * static_cast<size_t>(c.tdim), 0.0);
    d.mask.emplace_back(n, 1);
    if (!d.valid())
    {
        return verdict_t::discard("malformed");
    }

    std::vector<char> drop(n, 0);
    for (const auto e : c.excluded)
    {
        if (e >= 0 && e < c.samples)
        {
            drop[static_cast<size_t>(e)] = 1;
        }
    }
    std::vector<int> keep;
    for (int i = 0; i < c.samples; ++i)
    {
        if (drop[static_cast<size_t>(i)] == 0)
        {
            keep.push_back(i);
        }
    }
    if (keep.size() < 3)
    {
        return verdict_t::discard("too-few-samples");
    }
    const auto fit_samples = to_indices(keep);
    const auto all_samples = nano::arange(0, c.samples);

    nano::tensor4d_t grads(c.samples, c.tdim, 1, 1);
    for (tensor_size_t i = 0; i < grads.size(); ++i)
    {
        const auto g    = c.gradients[static_cast<size_t>(i) % c.gradients.size()];
        grads.data()[i] = c.grad_style == 0 ? g : c.grad_style == 1 ? (g < 0.0 ? -1.0 : 1.0) : (g < -0.6 ? -1.0 : g > 0.6 ? 1.0 : 0.0);
    }

    model_cfg_t m;
    m.criterion   = c.criterion;
    m.dtree_depth = c.dtree_depth;
    m.dtree_split = c.dtree_split;

    const auto source = ds::make_datasource(d);
    const auto fit_once = [&](const nano::dataset_t& dataset)
    {
        wfit_outcome_t o;
        auto           w = make_wlearner(m, c.wlearner);
        o.call           = record(
            [&](std::vector<double>& out)
            {
                o.score  = w->fit(dataset, fit_samples, grads);
                o.fitted = o.score != nano::wlearner_t::no_fit_score();
                out.push_back(o.score);
                if (o.fitted)
                {
                    const auto features = w->features();
                    for (tensor_size_t i = 0; i < features.size(); ++i)
                    {
                        o.features.push_back(static_cast<int>(features(i)));
                    }
                    append(out, w->predict(dataset, all_samples));
                }
            });
        return o;
    };

    wfit_outcome_t ref;
    bool           have_ref = false;
    int            peak     = 0;
    for (const auto code : c.pools)
    {
        const int  pool     = threads_of(code);
        auto       rdataset = nano::dataset_t{*source, static_cast<size_t>(pool)};
        add_identity_generators(rdataset);
        const nano::dataset_t& dataset = rdataset;
        watch_dataset_pool(&dataset);
        install_delays(c.delays);
        for (int r = 0; r < (pool == 1 ? std::min(c.reps, 2) : c.reps); ++r)
        {
            const auto o = fit_once(dataset);
            if (!have_ref)
            {
                ref      = o;
                have_ref = true;
                continue;
            }
            if (!same_outcome(ref.call, o.call) || ref.features != o.features)
            {
                remove_delays();
                watch_dataset_pool(nullptr);
                const auto msg = cat(wlearner_ids[c.wlearner], ": dataset pool 1 -> score ", ref.score, " features ", ref.features.size() == 0 ? -1 : ref.features[0],
                                     "; dataset pool ", pool, " (fit #", r, ") -> score ", o.score, " features ", o.features.size() == 0 ? -1 : o.features[0], "; ",
                                     describe(ref.call, o.call));
                // Known-finding predicate (notes/C18.md, finding F-A): both fits report bit-identical scores but different
                // learners, i.e. an exact score tie between candidates was broken differently (min_reduce keeps the candidate
                // of the worker thread with the smaller id; which worker sees which feature is up to the scheduler)
                if (!ref.call.threw && !o.call.threw && ref.fitted && o.fitted && same_bits(ref.score, o.score))
                {
                    return verdict_t::known("C18/wfit/score-tie-broken-by-worker-id", msg);
                }
                return verdict_t::violation(cat("C18/wfit/", ref.call.threw != o.call.threw ? "exception-differs" : "result-differs"), msg);
            }
        }
        peak = std::max(peak, g_tasks_all.peak.load());
        remove_delays();
        watch_dataset_pool(nullptr);
    }

    bool planted = c.cats == 2 && c.catdup != 0;
    for (int j = 1; j < c.features; ++j)
    {
        planted = planted || c.dup[static_cast<size_t>(j)] != 0;
    }
    ctx.label(cat("wlearner:", wlearner_ids[c.wlearner]));
    ctx.label_if(!ref.fitted, "no-feature-fits");
    ctx.label_if(ref.call.threw, "fit-throws");
    ctx.label_if(planted, "planted-order-duplicates");
    ctx.label_if(!c.missing.empty(), "wfit-with-missing-values");
    ctx.label_if(peak >= 2, "pool-tasks-overlap");
    ctx.label_if(c.grad_style != 0, "few-valued-gradients");
    ctx.maximum("peak-pool-tasks", peak);
    ctx.nontrivial = ref.fitted && !ref.call.threw && peak >= 2;
    return verdict_t::ok();
}
} // namespace

int main(int argc, char** argv)
{
    // weights: share of the case budget (per-case cost plain / tsan in ms: solver 50/135, loss 13/35, dataset 11/35, predict 17/65, fit 110/430, wfit 30/50)
    // No shrinking: a failure here depends on the schedule, so a shrink candidate passes or fails by luck - rapidcheck would end on
    // the variant that reproduces LEAST often (seen in the mutation experiments: 0/5 confirmations of shrunk cases) after minutes of
    // re-running fits.  The case written on failure is the generated one; the driver confirms it with 5 replays (>= 2 must fail).
    suite_t suite("C18");
    suite.add<solver_case_t>("solver", [] { return rc::gen::noShrink(gen_solver_case()); }, check_solver, 3.0);
    suite.add<loss_case_t>("loss", [] { return rc::gen::noShrink(gen_loss_case()); }, check_loss, 2.0);
    suite.add<dataset_case_t>("dataset", [] { return rc::gen::noShrink(gen_dataset_case()); }, check_dataset, 2.0);
    suite.add<predict_case_t>("predict", [] { return rc::gen::noShrink(gen_predict_case()); }, check_predict, 3.0);
    suite.add<fit_case_t>("fit", [] { return rc::gen::noShrink(gen_fit_case()); }, check_fit, 1.5);
    suite.add<wfit_case_t>("wfit", [] { return rc::gen::noShrink(gen_wfit_case()); }, check_wfit, 2.0);
    return suite.main(argc, argv);
}
