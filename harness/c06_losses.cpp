// C06 — the 17 losses: derivative clause, convexity of the losses that declare it, per-sample independence
// (metamorphic), non-negativity, 0-1 errors vs the arg-max / sign rule (DESIGN.md section 5, C06).
// The loss API has separate value / vgrad / error calls (vgrad returns only the gradient), so the
// "value-only == value+gradient" clause has no counterpart here; it is replaced by "the value of a sample does
// not depend on the batch it is evaluated in", which is what the statement says about losses.
#include "c06_calculus.h"

#include <nano/loss.h>

using namespace verif;
using c06::vec_t;

namespace
{
constexpr double eps = c06::eps;

enum class family_t
{
    regression,
    single_label,
    multi_label
};

family_t family_of(const std::string& id)
{
    if (id.rfind("s-", 0) == 0)
    {
        return family_t::single_label;
    }
    if (id.rfind("m-", 0) == 0)
    {
        return family_t::multi_label;
    }
    return family_t::regression;
}

std::vector<std::string> loss_ids()
{
    std::vector<std::string> ids;
    for (const auto& id : nano::loss_t::all().ids())
    {
        ids.push_back(id);
    }
    return ids;
}

struct lcase_t
{
    std::string     loss;
    int             outputs{1};
    double          alpha{0.5};
    vec_t           target;              // target of the probed sample
    int             batch1{1}, pos1{0};  // first batch: size and position of the probed sample
    int             batch2{1}, pos2{0};  // second batch
    vec_t           others_t1, others_o1; // the other samples of batch 1 (batch1*outputs values, the probe slot is overwritten)
    vec_t           others_t2, others_o2;
    c06::material_t m; // x, z: predictions of the probed sample (scaled by radius <= 30)

    template <class A>
    void io(A& a)
    {
        a("loss", loss);
        a("outputs", outputs);
        a("alpha", alpha);
        a("target", target);
        a("batch1", batch1);
        a("pos1", pos1);
        a("batch2", batch2);
        a("pos2", pos2);
        a("others_t1", others_t1);
        a("others_o1", others_o1);
        a("others_t2", others_t2);
        a("others_o2", others_o2);
        m.io(a);
    }
};

// targets of one sample for the loss family
rc::Gen<vec_t> gen_target(family_t fam, int n)
{
    const auto pm1 = rc::gen::container<vec_t>(static_cast<size_t>(n), rc::gen::element(-1.0, 1.0));
    switch (fam)
    {
    case family_t::regression:
        return rc::gen::oneOf(gen::vec(static_cast<size_t>(n), 30.0), rc::gen::container<vec_t>(static_cast<size_t>(n), gen::smallint(-3, 3)), pm1);
    case family_t::multi_label: return pm1; // every +-1 pattern
    default:
    {
        const auto one_hot = rc::gen::map(gen::range<int>(0, n - 1),
                                          [n](int k)
                                          {
                                              vec_t t(static_cast<size_t>(n), -1.0);
                                              t[static_cast<size_t>(k)] = 1.0;
                                              return t;
                                          });
        if (n == 1)
        {
            return pm1; // binary: +-1
        }
        // mostly valid single-label patterns, sometimes any pattern (derivative / convexity clauses only)
        return rc::gen::weightedOneOf<vec_t>({{4, one_hot}, {1, pm1}});
    }
    }
}

rc::Gen<lcase_t> gen_lcase()
{
    const auto ids = loss_ids();
    return rc::gen::mapcat(
        rc::gen::tuple(rc::gen::elementOf(ids), rc::gen::oneOf(gen::range<int>(1, 13), gen::range<int>(1, 3)), gen::range<int>(1, 5),
                       gen::range<int>(1, 5)),
        [](const std::tuple<std::string, int, int, int>& t)
        {
            const auto id  = std::get<0>(t);
            const auto n   = std::get<1>(t);
            const auto b1  = std::get<2>(t);
            const auto b2  = std::get<3>(t);
            const auto fam = family_of(id);
            const auto tg  = gen_target(fam, n);
            const auto many = [=](int b)
            {
                return rc::gen::map(rc::gen::container<std::vector<vec_t>>(static_cast<size_t>(b), tg),
                                    [](const std::vector<vec_t>& rows)
                                    {
                                        vec_t flat;
                                        for (const auto& r : rows)
                                        {
                                            flat.insert(flat.end(), r.begin(), r.end());
                                        }
                                        return flat;
                                    });
            };
            return rc::gen::map(
                rc::gen::tuple(rc::gen::oneOf(gen::real(0.0, 1.0), rc::gen::element(0.0, 1.0, 0.5, 0.1, 0.9)), tg, gen::range<int>(0, b1 - 1),
                               gen::range<int>(0, b2 - 1), rc::gen::noShrink(many(b1)), rc::gen::noShrink(gen::vec(static_cast<size_t>(b1 * n), 30.0)),
                               rc::gen::noShrink(many(b2)), rc::gen::noShrink(gen::vec(static_cast<size_t>(b2 * n), 30.0)),
                               c06::gen_material(static_cast<size_t>(n), 100, 1e-3, 30.0)),
                [=](const std::tuple<double, vec_t, int, int, vec_t, vec_t, vec_t, vec_t, c06::material_t>& u)
                {
                    lcase_t c;
                    c.loss      = id;
                    c.outputs   = n;
                    c.alpha     = std::get<0>(u);
                    c.target    = std::get<1>(u);
                    c.batch1    = b1;
                    c.pos1      = std::get<2>(u);
                    c.batch2    = b2;
                    c.pos2      = std::get<3>(u);
                    c.others_t1 = std::get<4>(u);
                    c.others_o1 = std::get<5>(u);
                    c.others_t2 = std::get<6>(u);
                    c.others_o2 = std::get<7>(u);
                    c.m         = std::get<8>(u);
                    return c;
                });
        });
}

struct sample_eval_t
{
    double value{0}, error{0};
    vec_t  grad;
};

// evaluates a batch and returns what the loss reports for the sample at `pos`
sample_eval_t eval_in_batch(const nano::loss_t& loss, int n, int batch, int pos, const vec_t& others_t, const vec_t& others_o,
                            const vec_t& target, const vec_t& output)
{
    nano::tensor4d_t targets(batch, n, 1, 1), outputs(batch, n, 1, 1);
    for (int s = 0; s < batch; ++s)
    {
        for (int j = 0; j < n; ++j)
        {
            const auto k        = static_cast<size_t>(s * n + j);
            targets(s, j, 0, 0) = s == pos ? target[static_cast<size_t>(j)] : others_t[k];
            outputs(s, j, 0, 0) = s == pos ? output[static_cast<size_t>(j)] : others_o[k];
        }
    }
    nano::tensor1d_t values, errors;
    nano::tensor4d_t vgrads;
    loss.value(targets, outputs, values);
    loss.error(targets, outputs, errors);
    loss.vgrad(targets, outputs, vgrads);
    sample_eval_t r;
    r.value = values(pos);
    r.error = errors(pos);
    r.grad.resize(static_cast<size_t>(n));
    for (int j = 0; j < n; ++j)
    {
        r.grad[static_cast<size_t>(j)] = vgrads(pos, j, 0, 0);
    }
    return r;
}

verdict_t check_lcase(const lcase_t& c, ctx_t& ctx)
{
    const auto n = c.outputs;
    if (n < 1 || n > 13 || c.batch1 < 1 || c.batch2 < 1 || c.pos1 < 0 || c.pos1 >= c.batch1 || c.pos2 < 0 || c.pos2 >= c.batch2 ||
        c.target.size() != static_cast<size_t>(n) || c.others_t1.size() != static_cast<size_t>(c.batch1 * n) ||
        c.others_o1.size() != static_cast<size_t>(c.batch1 * n) || c.others_t2.size() != static_cast<size_t>(c.batch2 * n) ||
        c.others_o2.size() != static_cast<size_t>(c.batch2 * n) || !(c.alpha >= 0.0 && c.alpha <= 1.0) || !(c.m.radius <= 30.0))
    {
        return verdict_t::discard("out-of-domain");
    }
    const auto fam = family_of(c.loss);
    int        positives = 0;
    for (const auto t : c.target)
    {
        if (!std::isfinite(t) || std::fabs(t) > 30.0)
        {
            return verdict_t::discard("out-of-domain");
        }
        if (fam != family_t::regression && !(t == 1.0 || t == -1.0))
        {
            return verdict_t::discard("class-target-not-+-1");
        }
        positives += t > 0 ? 1 : 0;
    }
    // valid class pattern for the loss family (non-negativity and the error rule are stated for these)
    const bool valid_pattern = fam == family_t::regression || fam == family_t::multi_label || n == 1 || positives == 1;
    // class-NLL needs a true class: with no positive label (possible only for the one-output binary layout, which the
    // library's own datasets never produce for single-label targets) -log p(true class) is not defined
    const bool nll_defined = c.loss != "s-classnll" || positives == 1;

    try
    {
        auto loss = nano::loss_t::all().get(c.loss);
        if (!loss)
        {
            return verdict_t::discard("unknown-loss");
        }
        if (c.loss == "pinball")
        {
            loss->parameter("loss::pinball::alpha") = c.alpha;
        }
        const auto where = "C06/loss/" + c.loss;

        // ---- the loss of one sample as a function of its prediction ---------------------------------
        nano::tensor4d_t t1(1, n, 1, 1), o1(1, n, 1, 1), g1(1, n, 1, 1);
        nano::tensor1d_t v1(1);
        for (int j = 0; j < n; ++j)
        {
            t1(0, j, 0, 0) = c.target[static_cast<size_t>(j)];
        }
        c06::object_t o;
        o.family     = "losses";
        o.where      = where;
        o.n          = static_cast<size_t>(n);
        o.convex     = loss->convex();
        o.smooth     = loss->smooth();
        o.mu         = 0.0;
        o.joint_call = false;
        o.terms      = [&](const vec_t& x)
        {
            double m = 0;
            for (int j = 0; j < n; ++j)
            {
                m += std::fabs(x[static_cast<size_t>(j)]) + std::fabs(c.target[static_cast<size_t>(j)]);
            }
            return m;
        };
        o.value      = [&](const vec_t& x)
        {
            for (int j = 0; j < n; ++j)
            {
                o1(0, j, 0, 0) = x[static_cast<size_t>(j)];
            }
            loss->value(t1, o1, v1.tensor());
            return v1(0);
        };
        o.vgrad = [&](const vec_t& x, vec_t& g)
        {
            for (int j = 0; j < n; ++j)
            {
                o1(0, j, 0, 0) = x[static_cast<size_t>(j)];
            }
            g1.full(std::numeric_limits<double>::quiet_NaN());
            loss->vgrad(t1, o1, g1.tensor());
            loss->value(t1, o1, v1.tensor());
            g.resize(static_cast<size_t>(n));
            for (int j = 0; j < n; ++j)
            {
                g[static_cast<size_t>(j)] = g1(0, j, 0, 0);
            }
            return v1(0);
        };
        c06::counters_t cnt;
        const auto      v = c06::check_object(o, c.m, ctx, cnt);
        if (v.kind == kind_t::violation || v.kind == kind_t::discard)
        {
            return v;
        }
        bool borderline = v.kind == kind_t::borderline;

        // ---- per-sample clauses at both predictions ------------------------------------------------------
        const auto radius = c.m.radius > 0 ? c.m.radius : 1.0;
        bool       rule_checked = false;
        for (const auto* raw : {&c.m.x, &c.m.z})
        {
            const auto pred = c06::scaled(*raw, static_cast<size_t>(n), radius);
            double     mag  = 0;
            for (int j = 0; j < n; ++j)
            {
                mag += std::fabs(pred[static_cast<size_t>(j)]) + std::fabs(c.target[static_cast<size_t>(j)]);
            }
            const auto alone = eval_in_batch(*loss, n, 1, 0, c.target, pred, c.target, pred);
            const auto in1   = eval_in_batch(*loss, n, c.batch1, c.pos1, c.others_t1, c.others_o1, c.target, pred);
            const auto in2   = eval_in_batch(*loss, n, c.batch2, c.pos2, c.others_t2, c.others_o2, c.target, pred);
            if (!std::isfinite(alone.value) || !std::isfinite(alone.error) || !c06::finite(alone.grad))
            {
                ctx.label("nonfinite/losses");
                continue;
            }
            // (a) independence of the rest of the batch (Eigen's reductions may associate differently with the
            //     alignment of the sample inside the batch: compare up to rounding, 0-1 errors exactly)
            for (const auto* other : {&in1, &in2})
            {
                const auto vtol = 1e3 * eps * (std::fabs(alone.value) + mag);
                const auto dv   = std::fabs(other->value - alone.value);
                if (!(dv <= 10 * vtol))
                {
                    return verdict_t::violation(where + "/value-depends-on-batch",
                                                cat("outputs=", n, " alone=", alone.value, " in-batch=", other->value, " batch sizes ", c.batch1, "/", c.batch2));
                }
                borderline = borderline || dv > vtol;
                const auto etol = fam == family_t::regression ? 1e3 * eps * (std::fabs(alone.error) + mag) : 0.0;
                const auto de   = std::fabs(other->error - alone.error);
                if (!(de <= 10 * etol))
                {
                    return verdict_t::violation(where + "/error-depends-on-batch",
                                                cat("outputs=", n, " alone=", alone.error, " in-batch=", other->error));
                }
                borderline = borderline || de > etol;
                for (int j = 0; j < n; ++j)
                {
                    const auto ga = alone.grad[static_cast<size_t>(j)], gb = other->grad[static_cast<size_t>(j)];
                    if (!(std::fabs(ga - gb) <= 1e4 * eps * (std::fabs(ga) + 1.0)))
                    {
                        return verdict_t::violation(where + "/gradient-depends-on-batch", cat("outputs=", n, " j=", j, " alone=", ga, " in-batch=", gb));
                    }
                }
            }
            // (b) non-negativity
            if (valid_pattern && nll_defined)
            {
                const auto tol = 1e3 * eps * (std::fabs(alone.value) + mag);
                if (alone.value < -10 * tol)
                {
                    return verdict_t::violation(where + "/negative-value", cat("outputs=", n, " value=", alone.value, " positives=", positives));
                }
                borderline = borderline || alone.value < -tol;
            }
            else
            {
                ctx.label_if(alone.value < 0.0, "negative-value-on-excluded-pattern");
            }
            if (alone.error < 0.0)
            {
                return verdict_t::violation(where + "/negative-error", cat("outputs=", n, " error=", alone.error));
            }
            // (c) 0-1 errors == decision rule computed here
            if (fam != family_t::regression && valid_pattern)
            {
                bool   ambiguous = false;
                double want      = 0.0;
                if (fam == family_t::multi_label || n == 1)
                {
                    for (int j = 0; j < n; ++j)
                    {
                        const auto s = pred[static_cast<size_t>(j)];
                        ambiguous    = ambiguous || std::fabs(s) < 1e-9;
                        // label predicted iff its score is positive
                        want += ((s > 0) != (c.target[static_cast<size_t>(j)] > 0)) ? 1.0 : 0.0;
                    }
                }
                else
                {
                    int best = 0;
                    for (int j = 1; j < n; ++j)
                    {
                        if (pred[static_cast<size_t>(j)] > pred[static_cast<size_t>(best)])
                        {
                            best = j;
                        }
                    }
                    for (int j = 0; j < n; ++j)
                    {
                        ambiguous = ambiguous || (j != best && pred[static_cast<size_t>(best)] - pred[static_cast<size_t>(j)] < 1e-9);
                    }
                    want = c.target[static_cast<size_t>(best)] > 0 ? 0.0 : 1.0;
                }
                if (ambiguous)
                {
                    ctx.label("error-rule-skipped/tie-or-zero-score");
                }
                else
                {
                    rule_checked = true;
                    if (alone.error != want)
                    {
                        return verdict_t::violation(where + (fam == family_t::multi_label ? "/error-vs-sign-rule" : n == 1 ? "/error-vs-sign-rule" : "/error-vs-argmax-rule"),
                                                    cat("outputs=", n, " error=", alone.error, " rule=", want));
                    }
                    ctx.label_if(want > 0, "error-rule/misclassified");
                    ctx.label_if(want == 0, "error-rule/correct");
                }
            }
        }

        ctx.label("loss/" + c.loss);
        ctx.label(fam == family_t::regression ? "family/regression" : fam == family_t::multi_label ? "family/multi-label" : "family/single-label");
        ctx.label_if(!valid_pattern, "pattern/not-single-label(derivative+convexity only)");
        ctx.label_if(!nll_defined, "pattern/classnll-without-positive-label(excluded from non-negativity)");
        ctx.label_if(fam == family_t::single_label && n == 1, "single-label/binary-one-output");
        ctx.label(n == 1 ? "outputs/1" : n == 2 ? "outputs/2" : n <= 5 ? "outputs/3-5" : "outputs/6-13");
        ctx.nontrivial = ctx.nontrivial && (fam == family_t::regression || !valid_pattern || rule_checked);
        if (borderline)
        {
            return verdict_t::borderline(where);
        }
        return verdict_t::ok();
    }
    catch (const std::exception& e)
    {
        return verdict_t::violation("C06/exception/loss/" + c.loss, e.what());
    }
}
} // namespace

int main(int argc, char** argv)
{
    suite_t suite("C06");
    suite.add<lcase_t>("losses", gen_lcase, check_lcase, 1.0);
    return suite.main(argc, argv);
}
