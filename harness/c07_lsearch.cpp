// C07 — line-search steps honour the advertised acceptance conditions (DESIGN.md section 5, C07).
//
// One call of lsearchk_t::get per case: function (registered smooth function at 1..16 dims or a generated convex
// quadratic) x state (box of radius 1e-2..1e3) x direction (descent: -g, rotated -g, -Hg; non-descent: +g, exactly
// orthogonal, zero, slightly uphill) x initial step (finite, 0, negative, NaN, +-inf) x (c1,c2) x interpolation x
// max_iterations x the five line-searches. Everything the verdict uses is recomputed on a second instance of the
// function: f, g at the origin and at the returned point, the slopes in long double.
#include "c01_quadratic_model.h"
#include "common.h"

#include <nano/core/verif.h>
#include <nano/function.h>
#include <nano/lsearchk.h>

#include <optional>

using namespace verif;
using namespace verif::quadratic;

namespace
{
enum direction_kind : int
{
    dir_steepest = 0, // -g
    dir_rotated,      // -g rotated towards a generated vector, angle atan(tangent)
    dir_newton,       // -(B B' + delta I) g
    dir_uphill,       // +g
    dir_orthogonal,   // g.d == 0 exactly: d_i = g_j, d_j = -g_i
    dir_zero,         // 0
    dir_slightly_up,  // orthogonal part + 1e-6 g
    dir_count
};

struct lcase_t : spec_t
{
    std::string         function; // empty: generated quadratic
    int                 dims{1}, summands{10};
    std::vector<double> x0;
    int                 dkind{0};
    std::vector<double> w;        // n
    std::vector<double> B;        // n*3
    double              tangent{1.0};
    double              delta{1.0};
    double              dscale{1.0};
    int                 t0kind{0}; // 0 finite positive, 1 NaN, 2 +inf, 3 -inf, 4 zero, 5 negative
    double              t0{1.0};
    std::string         lsearchk;
    double              c1{1e-4}, c2{0.1};
    int                 interpolation{2}; // 0 bisection, 1 quadratic, 2 cubic (backtrack, lemarechal, fletcher)
    int                 max_iterations{128};

    template <class A>
    void io(A& a)
    {
        a("function", function);
        a("dims", dims);
        a("summands", summands);
        io_spec(a);
        a("x0", x0);
        a("dkind", dkind);
        a("w", w);
        a("B", B);
        a("tangent", tangent);
        a("delta", delta);
        a("dscale", dscale);
        a("t0kind", t0kind);
        a("t0", t0);
        a("lsearchk", lsearchk);
        a("c1", c1);
        a("c2", c2);
        a("interpolation", interpolation);
        a("max_iterations", max_iterations);
    }
};

const std::vector<std::string>& smooth_function_ids()
{
    static const auto ids = []
    {
        std::vector<std::string> out;
        for (const auto& id : nano::function_t::all().ids())
        {
            if (nano::function_t::all().get(id)->smooth())
            {
                out.push_back(id);
            }
        }
        std::sort(out.begin(), out.end());
        return out;
    }();
    return ids;
}

const std::vector<std::string>& lsearchk_ids()
{
    static const auto ids = []
    {
        auto out = nano::lsearchk_t::all().ids();
        std::sort(out.begin(), out.end());
        return out;
    }();
    return ids;
}

nano::rfunction_t make_registered(const std::string& id, int dims, int summands)
{
    const auto proto = nano::function_t::all().get(id);
    return proto ? proto->make(dims, summands) : nano::rfunction_t{};
}

rc::Gen<lcase_t> gen_lcase()
{
    return rc::gen::exec(
        []
        {
            lcase_t c;
            size_t  n = 0;
            if (*gen::chance(50))
            {
                gen_spec(c, 6.0);
                n = static_cast<size_t>(c.n);
            }
            else
            {
                c.function   = *rc::gen::elementOf(smooth_function_ids());
                c.dims       = *rc::gen::oneOf(gen::range<int>(1, 16), gen::range<int>(1, 4));
                c.summands   = *gen::range<int>(1, 40);
                const auto f = make_registered(c.function, c.dims, c.summands);
                n            = f ? static_cast<size_t>(f->size()) : 0U;
                c.n          = 1;
                c.gauss.assign(1, 1.0);
                c.u.assign(1, 0.0);
                c.xstar.assign(1, 0.0);
            }
            const auto radius = *gen::logu(1e-2, 1e3);
            const auto unit   = *gen::vec(n, 1.0);
            for (const auto v : unit)
            {
                c.x0.push_back(radius * v);
            }
            // directions: 70 % descent families, 30 % non-descent
            const int dk = *gen::range<int>(0, 19);
            c.dkind      = dk < 5    ? dir_steepest
                           : dk < 10 ? dir_rotated
                           : dk < 14 ? dir_newton
                           : dk < 15 ? dir_uphill
                           : dk < 17 ? dir_orthogonal
                           : dk < 18 ? dir_zero
                                     : dir_slightly_up;
            c.w          = *gen::vec(n, 1.0);
            c.B          = *rc::gen::noShrink(gen::vec(3 * n, 1.0));
            c.tangent    = *gen::logu(1e-2, 1e3);
            c.delta      = *gen::logu(1e-6, 1.0);
            c.dscale     = *gen::chance(30) ? 1.0 : *gen::logu(1e-3, 1e3);
            const int tk = *gen::range<int>(0, 19);
            c.t0kind     = tk < 15 ? 0 : tk - 14;
            c.t0         = *gen::chance(20) ? *rc::gen::element(1.0, 1e-3, 1e3, 0.1, 0.3, 30.0) : *gen::logu(1e-3, 1e3);
            c.lsearchk   = *rc::gen::elementOf(lsearchk_ids());
            c.c1         = *gen::chance(20) ? *rc::gen::element(1e-4, 1e-1) : *gen::logu(1e-8, 0.9);
            c.c2 = *gen::chance(50) ? c.c1 + (1.0 - c.c1) * *gen::real(1e-6, 1.0 - 1e-6) : 1.0 - (1.0 - c.c1) * *gen::logu(1e-6, 1.0 - 1e-6);
            if (!(c.c1 < c.c2 && c.c2 < 1.0))
            {
                c.c2 = 0.5 * (c.c1 + 1.0);
            }
            c.interpolation  = *gen::range<int>(0, 2);
            c.max_iterations = *rc::gen::oneOf(rc::gen::just(128), gen::range<int>(128, 10000), gen::range<int>(1, 10000), gen::range<int>(1, 12));
            return c;
        });
}

bool same_bits(double a, double b)
{
    return (std::isnan(a) && std::isnan(b)) || a == b;
}

struct slope_t
{
    ld dot{0}, abs{0}; // sum g_i d_i and sum |g_i d_i|
};

slope_t slope(const nano::vector_t& g, const nano::vector_t& d)
{
    slope_t s;
    for (nano::tensor_size_t i = 0; i < g.size(); ++i)
    {
        const ld p = static_cast<ld>(g(i)) * static_cast<ld>(d(i));
        s.dot += p;
        s.abs += std::fabs(p);
    }
    return s;
}

verdict_t check_lsearch(const lcase_t& c, ctx_t& ctx)
{
    nano::verif::rng_state().store(0x5eed0007ULL);

    // ---- domain ---------------------------------------------------------------------------------------
    if (!(c.c1 > 0.0 && c.c1 < c.c2 && c.c2 < 1.0))
    {
        return verdict_t::discard("tolerances-out-of-domain");
    }
    if (c.max_iterations < 1 || c.max_iterations > 10000 || c.interpolation < 0 || c.interpolation > 2 || c.dkind < 0 || c.dkind >= dir_count ||
        c.t0kind < 0 || c.t0kind > 5 || !(c.t0 >= 1e-3 && c.t0 <= 1e3) || !(c.dscale >= 1e-3 && c.dscale <= 1e3) ||
        !(c.tangent >= 1e-2 && c.tangent <= 1e3) || !(c.delta >= 1e-6 && c.delta <= 1.0))
    {
        return verdict_t::discard("configuration-out-of-domain");
    }
    if (!std::binary_search(lsearchk_ids().begin(), lsearchk_ids().end(), c.lsearchk))
    {
        return verdict_t::discard("unknown-line-search");
    }
    nano::rfunction_t      function, fresh;
    std::optional<built_t> built;
    const bool             quadratic = c.function.empty();
    if (quadratic)
    {
        if (const auto why = spec_domain(c, 1e6); !why.empty())
        {
            return verdict_t::discard(why);
        }
        built    = build(c);
        function = std::make_unique<quadratic_fn_t>(*built);
        fresh    = std::make_unique<quadratic_fn_t>(*built);
    }
    else
    {
        if (c.dims < 1 || c.dims > 16 || c.summands < 1 || c.summands > 1000)
        {
            return verdict_t::discard("dimensions-out-of-domain");
        }
        function = make_registered(c.function, c.dims, c.summands);
        fresh    = make_registered(c.function, c.dims, c.summands);
        if (!function || !fresh)
        {
            return verdict_t::discard("unknown-function");
        }
        if (!function->smooth())
        {
            return verdict_t::discard("function-not-smooth");
        }
    }
    const auto n = function->size();
    if (c.x0.size() != static_cast<size_t>(n) || c.w.size() != static_cast<size_t>(n) || c.B.size() != 3U * static_cast<size_t>(n))
    {
        return verdict_t::discard("dimension-mismatch");
    }
    for (size_t i = 0; i < c.x0.size(); ++i)
    {
        if (!(std::fabs(c.x0[i]) <= 1e3) || !(std::fabs(c.w[i]) <= 1.0))
        {
            return verdict_t::discard("state-out-of-domain");
        }
    }
    for (const auto v : c.B)
    {
        if (!(std::fabs(v) <= 1.0))
        {
            return verdict_t::discard("state-out-of-domain");
        }
    }

    // ---- origin (recomputed on the second instance) ---------------------------------------------------------
    const auto     x0 = to_vector(c.x0);
    nano::vector_t g0(n);
    const auto     f0 = fresh->vgrad(x0, g0);
    if (!std::isfinite(f0) || !g0.all_finite())
    {
        return verdict_t::discard("non-finite-start");
    }
    const auto g0max = g0.lpNorm<Eigen::Infinity>();
    if (c.dkind <= dir_newton && !(g0max >= eps))
    {
        return verdict_t::discard("stationary-start"); // no descent direction exists (the repository's tests skip these too)
    }

    // ---- direction -----------------------------------------------------------------------------------------
    nano::vector_t d(n);
    d.zero();
    const auto g0norm = g0.lpNorm<2>();
    const auto ortho  = [&]()
    {
        // part of w orthogonal to g0, normalised (zero when degenerate)
        nano::vector_t p(n);
        ld             wg = 0.0L, gg = 0.0L;
        for (nano::tensor_size_t i = 0; i < n; ++i)
        {
            wg += static_cast<ld>(c.w[static_cast<size_t>(i)]) * static_cast<ld>(g0(i));
            gg += static_cast<ld>(g0(i)) * static_cast<ld>(g0(i));
        }
        ld pn2 = 0.0L;
        for (nano::tensor_size_t i = 0; i < n; ++i)
        {
            const ld v = gg > 0.0L ? static_cast<ld>(c.w[static_cast<size_t>(i)]) - wg / gg * static_cast<ld>(g0(i)) : 0.0L;
            p(i)       = static_cast<double>(v);
            pn2 += v * v;
        }
        const auto pn = static_cast<double>(std::sqrt(pn2));
        for (nano::tensor_size_t i = 0; i < n; ++i)
        {
            p(i) = pn > 1e-9 ? p(i) / pn : 0.0;
        }
        return p;
    };
    switch (c.dkind)
    {
    case dir_steepest:
        for (nano::tensor_size_t i = 0; i < n; ++i)
        {
            d(i) = -g0(i) * c.dscale;
        }
        break;
    case dir_rotated:
    {
        const auto p = ortho();
        for (nano::tensor_size_t i = 0; i < n; ++i)
        {
            d(i) = (-g0(i) + c.tangent * g0norm * p(i)) * c.dscale;
        }
        break;
    }
    case dir_newton:
    {
        double bg[3] = {0.0, 0.0, 0.0};
        for (int k = 0; k < 3; ++k)
        {
            for (nano::tensor_size_t i = 0; i < n; ++i)
            {
                bg[k] += c.B[static_cast<size_t>(k) * static_cast<size_t>(n) + static_cast<size_t>(i)] * g0(i);
            }
        }
        for (nano::tensor_size_t i = 0; i < n; ++i)
        {
            double v = c.delta * g0(i);
            for (int k = 0; k < 3; ++k)
            {
                v += c.B[static_cast<size_t>(k) * static_cast<size_t>(n) + static_cast<size_t>(i)] * bg[k];
            }
            d(i) = -v * c.dscale;
        }
        break;
    }
    case dir_uphill:
        for (nano::tensor_size_t i = 0; i < n; ++i)
        {
            d(i) = g0(i) * c.dscale;
        }
        break;
    case dir_orthogonal:
    {
        // two largest gradient components swapped with opposite signs, scaled by a power of two: g.d == 0 exactly
        nano::tensor_size_t a = 0, b = n > 1 ? 1 : 0;
        for (nano::tensor_size_t i = 0; i < n; ++i)
        {
            if (std::fabs(g0(i)) > std::fabs(g0(a)))
            {
                b = a;
                a = i;
            }
            else if (i != a && (b == a || std::fabs(g0(i)) > std::fabs(g0(b))))
            {
                b = i;
            }
        }
        if (a != b)
        {
            const auto p2 = std::ldexp(1.0, static_cast<int>(std::lround(std::log2(c.dscale))));
            d(a)          = g0(b) * p2;
            d(b)          = -g0(a) * p2;
        }
        break;
    }
    case dir_zero: break;
    default:
    {
        const auto p = ortho();
        for (nano::tensor_size_t i = 0; i < n; ++i)
        {
            d(i) = (g0norm * p(i) + 1e-6 * g0(i)) * c.dscale;
        }
        break;
    }
    }
    if (!d.all_finite())
    {
        return verdict_t::discard("non-finite-direction");
    }
    const auto s0     = slope(g0, d);
    const auto s0_tol = 1e3L * static_cast<ld>(eps) * s0.abs;
    // exactly zero, whatever the summation order: plain double loops forwards and backwards agree with long double
    double fwd = 0.0, bwd = 0.0;
    for (nano::tensor_size_t i = 0; i < n; ++i)
    {
        fwd += g0(i) * d(i);
        bwd += g0(n - 1 - i) * d(n - 1 - i);
    }
    bool at_most_two_terms = true;
    {
        int terms = 0;
        for (nano::tensor_size_t i = 0; i < n; ++i)
        {
            terms += (g0(i) * d(i) != 0.0) ? 1 : 0;
        }
        at_most_two_terms = terms <= 2;
    }
    const bool exact_zero   = s0.dot == 0.0L && fwd == 0.0 && bwd == 0.0 && at_most_two_terms;
    const bool descent      = s0.dot < -s0_tol;
    const bool non_descent  = s0.dot > s0_tol || exact_zero;
    const bool ambiguous    = !descent && !non_descent;
    const auto dnorm        = d.lpNorm<2>();

    // ---- the generated quadratic along the line: phi(t) = f0 + gamma t + h t^2 / 2 ----------------------------------
    ld line_h = 0.0L, line_tstar = 0.0L;
    if (quadratic)
    {
        for (nano::tensor_size_t i = 0; i < n; ++i)
        {
            ld row = 0.0L;
            for (nano::tensor_size_t j = 0; j < n; ++j)
            {
                row += static_cast<ld>(built->A[static_cast<size_t>(i) * static_cast<size_t>(n) + static_cast<size_t>(j)]) * static_cast<ld>(d(j));
            }
            line_h += static_cast<ld>(d(i)) * row;
        }
        line_tstar = line_h > 0.0L ? -s0.dot / line_h : 0.0L;
    }
    // the clause "on convex quadratics all five succeed and satisfy their conditions" is applied where it can hold at all:
    //  - descent direction, iteration budget at its default or larger (lemarechal cannot even accept its first trial with 1);
    //  - CG_DESCENT with c1 < 1/2 (the approximate Wolfe conditions of the method are only defined there);
    //  - some admissible step (inside [stpmin, stpmax] with a factor 16 to spare) satisfies the advertised conditions:
    //    Armijo <=> t <= 2(1-c1)t*, Wolfe <=> t >= (1-c2)t*, strong Wolfe additionally t <= (1+c2)t*, and the set of such
    //    steps is at least 16 stpmin wide;
    //  - initial step as quantified by the property: in [1e-3,1e3] or non-finite (zero / negative guesses are clamped to
    //    stpmin = 10 eps, from where a search would have to grow the step through pure rounding noise);
    bool p4 = quadratic && descent && c.max_iterations >= 128 && line_h > 0.0L && c.t0kind <= 3;
    if (p4)
    {
        const bool strong = c.lsearchk == "fletcher" || c.lsearchk == "morethuente";
        const ld   lo     = c.lsearchk == "backtrack" ? 0.0L : (1.0L - static_cast<ld>(c.c2)) * line_tstar;
        const ld   hi     = std::min(2.0L * (1.0L - static_cast<ld>(c.c1)), strong ? 1.0L + static_cast<ld>(c.c2) : 2.0L) * line_tstar;
        const bool cg_out = c.lsearchk == "cgdescent" && !(c.c1 < 0.5);
        // ... and the interval of acceptable steps is wider than the absolute step resolution of the searches (fletcher's zoom
        // stops at |lo - hi| <= eps, CG_DESCENT at b - a <= stpmin)
        const bool reach  = hi >= 16.0L * static_cast<ld>(nano::lsearchk_t::stpmin()) && lo <= static_cast<ld>(nano::lsearchk_t::stpmax()) / 16.0L &&
                           hi - lo >= 16.0L * static_cast<ld>(nano::lsearchk_t::stpmin());
        ctx.label_if(cg_out, "quadratic:cgdescent-with-c1>=0.5-outside-the-method");
        ctx.label_if(!reach, "quadratic:no-admissible-step-satisfies-the-conditions");
        p4 = !cg_out && reach;
    }
    // ---- the call -----------------------------------------------------------------------------------------------
    double t0 = c.t0;
    switch (c.t0kind)
    {
    case 1: t0 = std::numeric_limits<double>::quiet_NaN(); break;
    case 2: t0 = std::numeric_limits<double>::infinity(); break;
    case 3: t0 = -std::numeric_limits<double>::infinity(); break;
    case 4: t0 = 0.0; break;
    case 5: t0 = -c.t0; break;
    default: break;
    }

    static const char* interpolations[] = {"bisection", "quadratic", "cubic"};
    bool               ok               = false;
    double             t                = 0.0;
    std::optional<nano::solver_state_t> origin, result;
    nano::lsearch_type                  type = nano::lsearch_type::none;
    try
    {
        auto lsearch = nano::lsearchk_t::all().get(c.lsearchk);
        lsearch->parameter("lsearchk::tolerance")      = std::make_tuple(c.c1, c.c2);
        lsearch->parameter("lsearchk::max_iterations") = c.max_iterations;
        if (auto* p = lsearch->parameter_if("lsearchk::" + c.lsearchk + "::interpolation"); p != nullptr)
        {
            *p = std::string(interpolations[c.interpolation]);
        }
        type = lsearch->type();
        origin.emplace(*function, x0);
        result             = *origin;
        // half of the cases run a COPY of the configured object (as ml::params_t and per-thread copies do); derived from generated data, so that old replay files keep their meaning
        const bool via_clone = (c.max_iterations % 2) == 1;
        ctx.label_if(via_clone, "line-search-used-through-clone");
        const auto cloned    = via_clone ? lsearch->clone() : nano::rlsearchk_t{};
        const auto [ok_, t_] = (via_clone ? *cloned : *lsearch).get(*result, d, t0, nano::make_null_logger());
        ok                 = ok_;
        t                  = t_;
    }
    catch (const std::exception& e)
    {
        return verdict_t::violation("C07/exception/" + c.lsearchk, e.what());
    }
    const auto& state  = *result;
    const auto  trials = function->fcalls() - 1; // evaluations made by the search

    static const char* dnames[] = {"steepest", "rotated", "quasi-newton", "uphill", "orthogonal", "zero", "slightly-uphill"};
    ctx.label("lsearchk:" + c.lsearchk);
    ctx.label(std::string("direction:") + dnames[c.dkind]);
    ctx.label(quadratic ? "function:generated-quadratic" : "function:" + c.function);
    ctx.label_if(c.t0kind != 0, "t0:non-finite-or-non-positive");
    ctx.label_if(ambiguous, "slope-sign-ambiguous");
    ctx.label_if(exact_zero && dnorm > 0.0, "slope-exactly-zero");
    ctx.label(std::string(ok ? "success:" : "failure:") + c.lsearchk);

    // ---- non-descent: refused, state untouched ------------------------------------------------------------------------
    if (non_descent)
    {
        if (ok)
        {
            return verdict_t::violation("C07/non-descent/accepted/" + c.lsearchk, cat("g.d=", static_cast<double>(s0.dot), " t=", t, " |d|=", dnorm));
        }
        bool same = state.x().size() == origin->x().size() && same_bits(state.fx(), origin->fx());
        for (nano::tensor_size_t i = 0; same && i < n; ++i)
        {
            same = same_bits(state.x()(i), origin->x()(i)) && same_bits(state.gx()(i), origin->gx()(i));
        }
        if (!same)
        {
            return verdict_t::violation("C07/non-descent/state-modified/" + c.lsearchk,
                                        cat("g.d=", static_cast<double>(s0.dot), " evaluations=", trials, " f before=", origin->fx(), " after=", state.fx()));
        }
        ctx.nontrivial = dnorm > 0.0;
        return verdict_t::ok();
    }
    if (!ok)
    {
        if (p4)
        {
            return verdict_t::violation("C07/quadratic/failed/" + c.lsearchk,
                                        cat("t=", t, " trials=", trials, " max_iterations=", c.max_iterations, " c1=", c.c1, " c2=", c.c2, " minimiser along the line t*=",
                                            static_cast<double>(line_tstar), " g0.d=", static_cast<double>(s0.dot), " f0=", f0, " t0=", t0, " n=", c.n, " kappa=", c.kappa));
        }
        return verdict_t::ok(); // an honest failure: nothing is promised (state may have moved)
    }

    // ---- success: step, state, conditions -----------------------------------------------------------------------
    if (c.lsearchk == "morethuente" && trials == c.max_iterations && (!std::isfinite(state.fx()) || !state.gx().all_finite() || !state.x().all_finite()))
    {
        // open finding: when every one of the max_iterations attempts to shorten a too long initial step produces a non-finite
        // value, lsearchk_t::get hands More-Thuente a step that is one factor 0.3 shorter than the point the state was evaluated
        // at, and More-Thuente's "stp <= stpmin" exit reports success without looking at the state
        return verdict_t::known("C07/morethuente/success-with-non-finite-state",
                                cat("t=", t, " stored f=", state.fx(), " f0=", f0, " |d|=", dnorm, " evaluations=", trials, " max_iterations=", c.max_iterations));
    }
    if (!(std::isfinite(t) && t > 0.0))
    {
        return verdict_t::violation("C07/success/step-not-finite-positive/" + c.lsearchk, cat("t=", t));
    }
    if (state.x().size() != n || state.gx().size() != n)
    {
        return verdict_t::violation("C07/success/state-dimension/" + c.lsearchk);
    }
    bool position_borderline = false;
    for (nano::tensor_size_t i = 0; i < n; ++i)
    {
        const ld want = static_cast<ld>(x0(i)) + static_cast<ld>(t) * static_cast<ld>(d(i));
        const ld tol  = 1e3L * static_cast<ld>(eps) * (std::fabs(static_cast<ld>(x0(i))) + std::fabs(static_cast<ld>(t) * static_cast<ld>(d(i))));
        const ld diff = std::fabs(static_cast<ld>(state.x()(i)) - want);
        if (!(diff <= 10.0L * tol))
        {
            return verdict_t::violation("C07/success/state-not-at-x+t*d/" + c.lsearchk,
                                        cat("i=", i, " x=", state.x()(i), " x0+t*d=", static_cast<double>(want), " t=", t));
        }
        position_borderline = position_borderline || !(diff <= tol);
    }
    nano::vector_t x1(state.x());
    nano::vector_t g1(n);
    const auto     f1 = fresh->vgrad(x1, g1);
    bool           evaluated = same_bits(f1, state.fx());
    for (nano::tensor_size_t i = 0; evaluated && i < n; ++i)
    {
        evaluated = same_bits(g1(i), state.gx()(i));
    }
    if (!evaluated)
    {
        return verdict_t::violation("C07/success/state-is-not-the-evaluation-at-its-point/" + c.lsearchk,
                                    cat("stored f=", state.fx(), " recomputed f=", f1, " t=", t));
    }
    if (position_borderline)
    {
        return verdict_t::borderline("state-position");
    }

    // backtrack, lemarechal, fletcher: always; More-Thuente and CG_DESCENT: only on the convex quadratics with the default
    // (or a larger) iteration budget, where the property promises success with the advertised conditions
    const bool check_conditions = p4 || type == nano::lsearch_type::armijo || type == nano::lsearch_type::wolfe ||
                                  (type == nano::lsearch_type::strong_wolfe && c.lsearchk == "fletcher");
    if (check_conditions && ambiguous)
    {
        // the slope at the origin is not resolved: the conditions are not decidable
        return verdict_t::ok();
    }
    if (check_conditions)
    {
        const auto s1      = slope(g1, d);
        const ld   tl      = t;
        const ld   slack_v = 1e3L * static_cast<ld>(eps) * (std::fabs(static_cast<ld>(f0)) + std::fabs(static_cast<ld>(f1)) + std::fabs(tl * s0.dot));
        const ld   slack_s = 1e3L * static_cast<ld>(eps) * (s0.abs + s1.abs);
        // excess > 0: the inequality fails by that much
        const ld armijo  = static_cast<ld>(f1) - (static_cast<ld>(f0) + static_cast<ld>(c.c1) * tl * s0.dot);
        const ld wolfe   = static_cast<ld>(c.c2) * s0.dot - s1.dot;
        const ld swolfe  = std::fabs(s1.dot) - static_cast<ld>(c.c2) * std::fabs(s0.dot);
        // CG_DESCENT: approximate Wolfe with epsilon_k = epsilon * |f0|, epsilon at its default 1e-6
        const ld aarmijo = static_cast<ld>(f1) - (static_cast<ld>(f0) + 1e-6L * std::fabs(static_cast<ld>(f0)));
        const ld awolfe  = std::max(s1.dot - (2.0L * static_cast<ld>(c.c1) - 1.0L) * s0.dot, wolfe);

        const auto grade = [](ld excess, ld slack) { return !(excess <= 10.0L * slack) ? 2 : !(excess <= slack) ? 1 : 0; };
        int        worst = 0;
        std::string what;
        const auto need = [&](const char* name, int g)
        {
            if (g > worst)
            {
                worst = g;
                what  = name;
            }
        };
        switch (type)
        {
        case nano::lsearch_type::armijo: need("armijo", grade(armijo, slack_v)); break;
        case nano::lsearch_type::wolfe:
            need("armijo", grade(armijo, slack_v));
            need("wolfe", grade(wolfe, slack_s));
            break;
        case nano::lsearch_type::strong_wolfe:
            need("armijo", grade(armijo, slack_v));
            need("strong-wolfe", grade(swolfe, slack_s));
            break;
        case nano::lsearch_type::wolfe_approx_wolfe:
        {
            const int exact  = std::max(grade(armijo, slack_v), grade(wolfe, slack_s));
            const int approx = std::max(grade(aarmijo, slack_v), grade(awolfe, slack_s));
            need("wolfe-or-approximate-wolfe", std::min(exact, approx));
            ctx.label_if(exact == 2 && approx < 2, "cgdescent:approximate-wolfe-only");
            break;
        }
        default: break;
        }
        ctx.maximum("armijo-excess/slack:" + c.lsearchk, static_cast<double>(armijo / slack_v));
        if (worst == 2)
        {
            return verdict_t::violation("C07/condition/" + what + "/" + c.lsearchk,
                                        cat("t=", t, " f0=", f0, " f=", f1, " g0.d=", static_cast<double>(s0.dot), " g.d=", static_cast<double>(s1.dot), " c1=", c.c1,
                                            " c2=", c.c2, " armijo excess=", static_cast<double>(armijo), " (slack ", static_cast<double>(slack_v),
                                            ") wolfe excess=", static_cast<double>(wolfe), " strong wolfe excess=", static_cast<double>(swolfe), " (slack ",
                                            static_cast<double>(slack_s), ") trials=", trials));
        }
        if (worst == 1)
        {
            return verdict_t::borderline("condition/" + what);
        }
        if (quadratic)
        {
            ctx.label("quadratic-success:" + c.lsearchk);
        }
    }
    ctx.label_if(trials >= 2, "needed-more-than-one-trial");
    ctx.nontrivial = trials >= 2;
    return verdict_t::ok();
}
} // namespace

int main(int argc, char** argv)
{
    suite_t suite("C07");
    suite.add<lcase_t>("lsearch", gen_lcase, check_lsearch, 1.0);
    return suite.main(argc, argv);
}
