// C09 — the linear-model objective and the gradient-boosting bias / scale / gradient objectives equal
// their naive definitions with matching gradients, for any thread count, batch size and caching
// (DESIGN.md section 5, C09).
//
// Oracle: a per-sample loop in the harness over the generated data (the raw flatten / target values the
// dataset has to report, scaled by the harness re-implementation of the four scaling modes from the
// iterator's statistics, missing -> 0), loss values / gradients per sample through the library's loss
// object on ONE sample (the losses themselves are C06's property), chain rule for the gradients,
// long double accumulation.  Differential: every (threads, batch, cache) configuration of a case against
// the first one, and repeated evaluation of the same object.  Tolerance 1e-9 relative to the summed
// magnitudes (property text), widened only where a sub-gradient is ambiguous (a sample within 1e-11
// relative of a kink of the loss, l1 at a zero weight).
#include "common.h"
#include "dataset_gen.h"
#include "ml_ref.h"

#include <nano/core/verif.h>
#include <nano/dataset.h>
#include <nano/dataset/iterator.h>
#include <nano/gboost/function.h>
#include <nano/linear/function.h>
#include <nano/loss.h>
#include <nano/machine/cluster.h>

#include <optional>

using namespace verif;
using namespace verif::ds;
using namespace verif::mlref;
using nano::scalar_t;
using nano::tensor_size_t;

namespace
{
using ld = long double;

constexpr double rel_tol = 1e-9; // property text

// loss ids; compatibility with the target kind: regression targets -> 0..3, single-label -> 4..16, multi-label -> 11..16
const char* const loss_ids[] = {"mae",     "mse",       "cauchy",     "pinball",       "s-hinge",  "s-squared-hinge", "s-classnll", "s-savage",     "s-tangent",
                                "s-logistic", "s-exponential", "m-hinge", "m-squared-hinge", "m-savage", "m-tangent",       "m-logistic", "m-exponential"};
constexpr int     n_losses   = 17;

struct case_t
{
    data_spec_t         data;
    std::vector<int>    samples; // sorted, distinct: the samples the iterators loop over
    int                 loss{1};
    double              alpha{0.5}; // pinball only
    double              l1{0.0}, l2{0.0};
    int                 scaling{0};
    std::vector<int>    threads, batch, cache_flatten, cache_targets; // one entry per configuration
    std::vector<double> x;                                            // linear model: tsize x columns weights (row major), then tsize biases
    std::vector<double> xbias;                                        // gboost bias: tsize
    int                 groups{1};
    std::vector<int>    cluster;            // per dataset sample: -1 (unassigned) .. groups-1
    std::vector<double> xscale;             // gboost scale: groups
    std::vector<double> soutputs, woutputs; // dataset samples x tsize
    std::vector<double> goutputs;           // |samples| x tsize (gboost gradients)

    template <class A>
    void io(A& a)
    {
        data.io(a);
        a("samples", samples);
        a("loss", loss);
        a("alpha", alpha);
        a("l1", l1);
        a("l2", l2);
        a("scaling", scaling);
        a("threads", threads);
        a("batch", batch);
        a("cache_flatten", cache_flatten);
        a("cache_targets", cache_targets);
        a("x", x);
        a("xbias", xbias);
        a("groups", groups);
        a("cluster", cluster);
        a("xscale", xscale);
        a("soutputs", soutputs);
        a("woutputs", woutputs);
        a("goutputs", goutputs);
    }
};

// ---------------------------------------------------------------------------------------
// generator
// ---------------------------------------------------------------------------------------
// keep the magnitude of the integer-typed features moderate (the shared generator also produces the
// extremes of the storage type, which C08 needs and which only overflow the exponential losses here)
data_spec_t moderate(data_spec_t d)
{
    for (int f = 0; f < d.nfeatures_total(); ++f)
    {
        if (d.spec(f).is_continuous())
        {
            for (auto& v : d.values[static_cast<size_t>(f)])
            {
                v = std::max(-20.0, std::min(20.0, v));
            }
        }
    }
    return d;
}

rc::Gen<double> gen_reg()
{
    return rc::gen::oneOf(rc::gen::just(0.0), rc::gen::just(0.0), gen::logu(1e-6, 1e6), rc::gen::element(1e-6, 1.0, 1e6));
}

rc::Gen<case_t> gen_case()
{
    return rc::gen::exec(
        []
        {
            case_t        c;
            gen_options_t o;
            o.min_samples = 1;
            o.max_samples = 200;
            o.min_inputs  = 1;
            o.max_inputs  = 10;
            o.max_classes = 5;
            o.target_kind = *rc::gen::element(1, 1, 2, 2, 3, 4); // scalar regression, sclass, mclass, structured regression
            if (*gen::chance(70))
            {
                // mostly small structured inputs (the large 3x3x3 ones dominate the run time otherwise)
                o.max_inputs = 6;
            }
            c.data = moderate(*gen_data(o));

            const auto& d      = c.data;
            const auto  n      = d.samples;
            const auto  layout = make_layout(d);
            const auto  tsize  = static_cast<size_t>(layout.tsize);
            const auto  ncols  = static_cast<size_t>(layout.ncols());

            c.samples = *gen_subset(n);
            const auto m = static_cast<int>(c.samples.size());

            const auto tspec = d.spec(d.target);
            c.loss           = tspec.is_continuous() ? *gen::range<int>(0, 3) : tspec.is_sclass() ? *gen::range<int>(4, 16) : *gen::range<int>(11, 16);
            c.alpha          = *rc::gen::oneOf(rc::gen::just(0.5), gen::real(0.0, 1.0), rc::gen::element(0.0, 1.0, 0.2));
            c.l1             = *gen_reg();
            c.l2             = *gen_reg();
            c.scaling        = *gen::range<int>(0, 3);

            // 3..6 configurations; the first one is the sequential reference point
            const auto nconfigs = *gen::range<int>(3, 6);
            for (int k = 0; k < nconfigs; ++k)
            {
                c.threads.push_back(k == 0 ? 1 : *rc::gen::oneOf(gen::range<int>(1, 16), gen::range<int>(2, 4), rc::gen::element(2, 3, 16)));
                c.batch.push_back(*rc::gen::oneOf(rc::gen::element(1, 2, 7, 10, 100, 10000), rc::gen::element(m, std::max(1, m - 1), m + 1), gen::range<int>(1, 10000),
                                                  gen::range<int>(1, std::max(1, m / 2))));
                c.cache_flatten.push_back(*gen::range<int>(0, 1));
                c.cache_targets.push_back(*gen::range<int>(0, 1));
            }

            c.x     = *gen::vec((ncols + 1) * tsize, 2.0);
            c.xbias = *gen::vec(tsize, 2.0);
            if (*gen::chance(10))
            {
                // exact zeros among the weights (l1 sub-gradient at zero)
                for (size_t i = 0; i < ncols * tsize; i += 3)
                {
                    c.x[i] = 0.0;
                }
            }

            c.groups  = *gen::range<int>(1, 4);
            c.cluster = *rc::gen::container<std::vector<int>>(static_cast<size_t>(n), rc::gen::oneOf(gen::range<int>(-1, c.groups - 1), gen::range<int>(0, c.groups - 1)));
            c.xscale  = *gen::vec(static_cast<size_t>(c.groups), 2.0);
            c.soutputs = *gen::vec(static_cast<size_t>(n) * tsize, 2.0);
            c.woutputs = *gen::vec(static_cast<size_t>(n) * tsize, 2.0);
            for (int s = 0; s < n; ++s)
            {
                if (c.cluster[static_cast<size_t>(s)] < 0)
                {
                    // DESIGN.md 4.3: a weak learner predicts zero for the samples it does not cover
                    for (size_t k = 0; k < tsize; ++k)
                    {
                        c.woutputs[static_cast<size_t>(s) * tsize + k] = 0.0;
                    }
                }
            }
            c.goutputs = *gen::vec(static_cast<size_t>(m) * tsize, 2.0);
            return c;
        });
}

// ---------------------------------------------------------------------------------------
// naive objectives
// ---------------------------------------------------------------------------------------
// a value with the magnitude its tolerance is relative to, and an absolute widening (ambiguous sub-gradients)
struct term_t
{
    ld value{0}, scale{0}, widen{0};
};

struct objective_t
{
    bool                finite{true};
    term_t              value;
    std::vector<term_t> grad;
};

// per-sample loss value / gradient through the library's loss object (single sample)
class sample_loss_t
{
public:
    sample_loss_t(const nano::loss_t& loss, int tsize)
        : m_loss(loss)
        , m_tsize(tsize)
        , m_targets(1, tsize, 1, 1)
        , m_outputs(1, tsize, 1, 1)
        , m_vgrads(1, tsize, 1, 1)
        , m_values(1)
    {
    }

    // returns false if anything is not finite
    bool eval(const double* target, const double* output, double& value, std::vector<double>& grad)
    {
        grad.resize(static_cast<size_t>(m_tsize));
        for (int k = 0; k < m_tsize; ++k)
        {
            m_targets(0, k, 0, 0) = target[k];
            m_outputs(0, k, 0, 0) = output[k];
        }
        m_loss.value(m_targets, m_outputs, m_values.tensor());
        m_loss.vgrad(m_targets, m_outputs, m_vgrads.tensor());
        value   = m_values(0);
        bool ok = std::isfinite(value);
        for (int k = 0; k < m_tsize; ++k)
        {
            grad[static_cast<size_t>(k)] = m_vgrads(0, k, 0, 0);
            ok                           = ok && std::isfinite(grad[static_cast<size_t>(k)]);
        }
        return ok;
    }

    // value, gradient and the per-component ambiguity of the gradient when the output is only known up to +-delta
    bool eval(const double* target, const std::vector<double>& output, const std::vector<double>& delta, double& value, std::vector<double>& grad,
              std::vector<double>& jump)
    {
        const auto ts = static_cast<size_t>(m_tsize);
        jump.assign(ts, 0.0);
        if (!eval(target, output.data(), value, grad))
        {
            return false;
        }
        bool any = false;
        for (const auto dlt : delta)
        {
            any = any || dlt > 0.0;
        }
        if (any)
        {
            std::vector<double> o(ts), gp, gm;
            double              v = 0.0;
            for (size_t k = 0; k < ts; ++k)
            {
                o[k] = output[k] + delta[k];
            }
            const auto okp = eval(target, o.data(), v, gp);
            for (size_t k = 0; k < ts; ++k)
            {
                o[k] = output[k] - delta[k];
            }
            const auto okm = eval(target, o.data(), v, gm);
            if (okp && okm)
            {
                for (size_t k = 0; k < ts; ++k)
                {
                    // a kink changes the gradient by O(1) relative; a smooth loss by O(delta)
                    const auto j = std::max({std::fabs(gp[k] - gm[k]), std::fabs(gp[k] - grad[k]), std::fabs(gm[k] - grad[k])});
                    if (j > 1e-3 * std::max({std::fabs(gp[k]), std::fabs(gm[k]), std::fabs(grad[k])}))
                    {
                        jump[k] = j;
                    }
                }
            }
        }
        return true;
    }

private:
    const nano::loss_t& m_loss;
    int                 m_tsize;
    nano::tensor4d_t    m_targets, m_outputs, m_vgrads;
    nano::tensor1d_t    m_values;
};

struct data_t
{
    int                 m{0}, ncols{0}, tsize{0};
    std::vector<double> inputs;  // m x ncols: scaled, missing -> 0 (harness re-implementation)
    std::vector<double> targets; // m x tsize: scaled
};

objective_t naive_linear(const case_t& c, const data_t& dt, sample_loss_t& sl)
{
    const auto  ncols = static_cast<size_t>(dt.ncols), tsize = static_cast<size_t>(dt.tsize);
    const auto* W = c.x.data();
    const auto* b = c.x.data() + ncols * tsize;

    objective_t obj;
    obj.grad.resize((ncols + 1) * tsize);
    std::vector<double> out(tsize), delta(tsize), grad, jump;
    for (int i = 0; i < dt.m && obj.finite; ++i)
    {
        const auto* z = dt.inputs.data() + static_cast<size_t>(i) * ncols;
        for (size_t k = 0; k < tsize; ++k)
        {
            ld acc = b[k], mag = std::fabs(static_cast<ld>(b[k]));
            for (size_t j = 0; j < ncols; ++j)
            {
                const ld p = static_cast<ld>(W[k * ncols + j]) * z[j];
                acc += p;
                mag += std::fabs(p);
            }
            out[k]   = static_cast<double>(acc);
            delta[k] = static_cast<double>(1e-11L * mag);
        }
        double value = 0.0;
        if (!sl.eval(dt.targets.data() + static_cast<size_t>(i) * tsize, out, delta, value, grad, jump))
        {
            obj.finite = false;
            break;
        }
        obj.value.value += value;
        obj.value.scale += std::fabs(value);
        for (size_t k = 0; k < tsize; ++k)
        {
            auto& gb = obj.grad[ncols * tsize + k];
            gb.value += grad[k];
            gb.scale += std::fabs(grad[k]);
            gb.widen += jump[k];
            for (size_t j = 0; j < ncols; ++j)
            {
                auto& gw = obj.grad[k * ncols + j];
                gw.value += static_cast<ld>(grad[k]) * z[j];
                gw.scale += std::fabs(static_cast<ld>(grad[k]) * z[j]);
                gw.widen += static_cast<ld>(jump[k]) * std::fabs(z[j]);
            }
        }
    }
    if (!obj.finite)
    {
        return obj;
    }
    const ld N = dt.m;
    obj.value.value /= N;
    obj.value.scale /= N;
    for (auto& g : obj.grad)
    {
        g.value /= N;
        g.scale /= N;
        g.widen /= N;
    }
    // regularisation: l1 mean|W| + (l2/2) mean(W^2)
    const ld size = static_cast<ld>(ncols * tsize);
    ld       sabs = 0, ssq = 0;
    for (size_t i = 0; i < ncols * tsize; ++i)
    {
        sabs += std::fabs(static_cast<ld>(W[i]));
        ssq += static_cast<ld>(W[i]) * W[i];
    }
    obj.value.value += c.l1 * sabs / size + 0.5L * c.l2 * ssq / size;
    obj.value.scale += c.l1 * sabs / size + 0.5L * c.l2 * ssq / size;
    for (size_t i = 0; i < ncols * tsize; ++i)
    {
        auto& g = obj.grad[i];
        if (W[i] != 0.0)
        {
            g.value += c.l1 * (W[i] > 0 ? 1 : -1) / size + c.l2 * W[i] / size;
            g.scale += c.l1 / size + c.l2 * std::fabs(static_cast<ld>(W[i])) / size;
        }
        else
        {
            g.widen += c.l1 / size; // any sub-gradient of |.| at zero
        }
    }
    obj.finite = std::isfinite(static_cast<double>(obj.value.value));
    return obj;
}

objective_t naive_bias(const case_t& c, const data_t& dt, sample_loss_t& sl)
{
    const auto  tsize = static_cast<size_t>(dt.tsize);
    objective_t obj;
    obj.grad.resize(tsize);
    std::vector<double> grad;
    for (int i = 0; i < dt.m; ++i)
    {
        double value = 0.0;
        if (!sl.eval(dt.targets.data() + static_cast<size_t>(i) * tsize, c.xbias.data(), value, grad))
        {
            obj.finite = false;
            return obj;
        }
        obj.value.value += value;
        obj.value.scale += std::fabs(value);
        for (size_t k = 0; k < tsize; ++k)
        {
            obj.grad[k].value += grad[k];
            obj.grad[k].scale += std::fabs(grad[k]);
        }
    }
    const ld N = dt.m;
    obj.value.value /= N;
    obj.value.scale /= N;
    for (auto& g : obj.grad)
    {
        g.value /= N;
        g.scale /= N;
    }
    return obj;
}

objective_t naive_scale(const case_t& c, const data_t& dt, sample_loss_t& sl)
{
    const auto  tsize = static_cast<size_t>(dt.tsize);
    objective_t obj;
    obj.grad.resize(static_cast<size_t>(c.groups));
    std::vector<double> out(tsize), delta(tsize), grad, jump;
    for (int i = 0; i < dt.m; ++i)
    {
        const auto   s     = static_cast<size_t>(c.samples[static_cast<size_t>(i)]);
        const auto   group = c.cluster[s];
        const double scale = group < 0 ? 0.0 : c.xscale[static_cast<size_t>(group)]; // unassigned samples: the strong learner's output as is
        for (size_t k = 0; k < tsize; ++k)
        {
            out[k]   = c.soutputs[s * tsize + k] + scale * c.woutputs[s * tsize + k];
            delta[k] = 1e-11 * (std::fabs(c.soutputs[s * tsize + k]) + std::fabs(scale * c.woutputs[s * tsize + k]));
        }
        double value = 0.0;
        if (!sl.eval(dt.targets.data() + static_cast<size_t>(i) * tsize, out, delta, value, grad, jump))
        {
            obj.finite = false;
            return obj;
        }
        obj.value.value += value;
        obj.value.scale += std::fabs(value);
        if (group >= 0)
        {
            auto& g = obj.grad[static_cast<size_t>(group)];
            for (size_t k = 0; k < tsize; ++k)
            {
                const ld w = c.woutputs[s * tsize + k];
                g.value += grad[k] * w;
                g.scale += std::fabs(grad[k] * w);
                g.widen += jump[k] * std::fabs(w);
            }
        }
    }
    const ld N = dt.m;
    obj.value.value /= N;
    obj.value.scale /= N;
    for (auto& g : obj.grad)
    {
        g.value /= N;
        g.scale /= N;
        g.widen /= N;
    }
    return obj;
}

// gradient objective: value = mean loss(t_i, o_i), gradient = per-sample loss gradients / N; `persample` = the gradients themselves
objective_t naive_grads(const case_t& c, const data_t& dt, sample_loss_t& sl, std::vector<double>& persample)
{
    const auto  tsize = static_cast<size_t>(dt.tsize);
    objective_t obj;
    obj.grad.resize(static_cast<size_t>(dt.m) * tsize);
    persample.assign(static_cast<size_t>(dt.m) * tsize, 0.0);
    std::vector<double> grad;
    const ld            N = dt.m;
    for (int i = 0; i < dt.m; ++i)
    {
        double value = 0.0;
        if (!sl.eval(dt.targets.data() + static_cast<size_t>(i) * tsize, c.goutputs.data() + static_cast<size_t>(i) * tsize, value, grad))
        {
            obj.finite = false;
            return obj;
        }
        obj.value.value += value;
        obj.value.scale += std::fabs(value);
        for (size_t k = 0; k < tsize; ++k)
        {
            persample[static_cast<size_t>(i) * tsize + k] = grad[k];
            auto& g                                       = obj.grad[static_cast<size_t>(i) * tsize + k];
            g.value                                       = grad[k] / N;
            g.scale                                       = std::fabs(grad[k]) / N;
        }
    }
    obj.value.value /= N;
    obj.value.scale /= N;
    return obj;
}

// ---------------------------------------------------------------------------------------
// comparison
// ---------------------------------------------------------------------------------------
struct judge_t
{
    ctx_t&                                      ctx;
    bool                                        borderline{false};
    std::optional<verdict_t>                    fail;
    std::vector<std::pair<std::string, double>> maxima;

    size_t slot(const std::string& key)
    {
        for (size_t i = 0; i < maxima.size(); ++i)
        {
            if (maxima[i].first == key)
            {
                return i;
            }
        }
        maxima.emplace_back(key, 0.0);
        return maxima.size() - 1;
    }

    void flush()
    {
        for (const auto& kv : maxima)
        {
            ctx.maximum(kv.first, kv.second);
        }
    }

    // |got - want| <= rel_tol * scale (+ widen); violation only beyond 10x the relative part
    // (signature and message are callables: only evaluated on failure)
    template <class tsig, class twhat>
    bool test(size_t slot, double got, const term_t& want, const tsig& sig, const twhat& what)
    {
        const ld err  = std::fabs(static_cast<ld>(got) - want.value);
        const ld tol  = rel_tol * want.scale;
        const ld tiny = std::numeric_limits<double>::min();
        if (std::isfinite(static_cast<double>(err)))
        {
            maxima[slot].second = std::max(maxima[slot].second, static_cast<double>(std::max<ld>(0, err - want.widen) / std::max(tol, tiny)));
        }
        if (!(err <= tol + want.widen)) // 1e-9 relative is the property's own bound: no further band
        {
            if (!fail)
            {
                fail = verdict_t::violation(sig(), cat(what(), ": got ", got, " expected ", static_cast<double>(want.value), " |diff|=", static_cast<double>(err),
                                                       " allowed ", static_cast<double>(tol + want.widen), " (magnitude of the summed terms ", static_cast<double>(want.scale), ")"));
            }
            return false;
        }
        if (!(err <= tol + want.widen))
        {
            borderline = true;
        }
        return true;
    }
};

// result of one evaluation of a library objective
struct eval_t
{
    double              value{0};
    std::vector<double> grad;
};

eval_t evaluate(const nano::function_t& function, const std::vector<double>& x, bool with_gradient)
{
    nano::vector_t vx(static_cast<tensor_size_t>(x.size()));
    for (size_t i = 0; i < x.size(); ++i)
    {
        vx(static_cast<tensor_size_t>(i)) = x[i];
    }
    eval_t r;
    if (with_gradient)
    {
        nano::vector_t gx(vx.size());
        gx.full(777.25); // sentinel: an unwritten component is detected
        r.value = function.vgrad(vx, gx);
        r.grad.resize(x.size());
        for (size_t i = 0; i < x.size(); ++i)
        {
            r.grad[i] = gx(static_cast<tensor_size_t>(i));
        }
    }
    else
    {
        r.value = function.vgrad(vx);
    }
    return r;
}

// compare one evaluation with a reference (the naive objective, or the values of another configuration
// carried in the same term_t layout so that the tolerance stays relative to the summed magnitudes)
void compare(judge_t& judge, const eval_t& got, const objective_t& want, const std::string& sig, const std::string& what)
{
    if (judge.fail)
    {
        return;
    }
    const auto svalue = judge.slot(sig.substr(4) + "/value");
    if (!judge.test(svalue, got.value, want.value, [&] { return sig + "/value"; }, [&] { return what; }))
    {
        return;
    }
    if (!got.grad.empty())
    {
        const auto sgrad = judge.slot(sig.substr(4) + "/gradient");
        for (size_t i = 0; i < got.grad.size(); ++i)
        {
            if (!judge.test(sgrad, got.grad[i], want.grad[i], [&] { return sig + "/gradient"; }, [&] { return cat(what, ", component ", i, " of ", got.grad.size()); }))
            {
                return;
            }
        }
    }
}

objective_t recentred(const objective_t& naive, const eval_t& at)
{
    // same magnitudes / widenings, centred at another evaluation (differential comparisons)
    auto r        = naive;
    r.value.value = at.value;
    for (size_t i = 0; i < r.grad.size() && i < at.grad.size(); ++i)
    {
        r.grad[i].value = at.grad[i];
    }
    return r;
}

// ---------------------------------------------------------------------------------------
// the check
// ---------------------------------------------------------------------------------------
verdict_t check_impl(const case_t& given, ctx_t& ctx)
{
    // DESIGN.md 4.3: a weak learner predicts zero for the samples it does not cover ("unassigned samples
    // unscaled": s_i + 0 * w_i and s_i + w_i coincide) - enforced here so that shrinking keeps the case valid
    auto c = given;
    {
        const auto ts = c.xbias.size();
        for (size_t s = 0; s < c.cluster.size(); ++s)
        {
            if (c.cluster[s] < 0)
            {
                for (size_t k = 0; k < ts; ++k)
                {
                    c.woutputs[s * ts + k] = 0.0;
                }
            }
        }
    }
    const auto& d      = c.data;
    const auto  layout = make_layout(d);
    const auto  ncols  = layout.ncols();
    const auto  tsize  = layout.tsize;
    const auto  n      = d.samples;
    const auto  m      = static_cast<int>(c.samples.size());

    auto loss = nano::loss_t::all().get(loss_ids[c.loss]);
    if (!loss)
    {
        return verdict_t::violation("C09/harness/unknown-loss", loss_ids[c.loss]);
    }
    if (c.loss == 3)
    {
        loss->parameter("loss::pinball::alpha") = c.alpha;
    }

    const auto source  = make_datasource(d);
    const auto samples = to_indices(c.samples);

    nano::cluster_t cluster(n, c.groups);
    for (int s = 0; s < n; ++s)
    {
        cluster.assign(s, c.cluster[static_cast<size_t>(s)]);
    }
    nano::tensor4d_t soutputs(n, tsize, 1, 1), woutputs(n, tsize, 1, 1), goutputs(m, tsize, 1, 1);

    judge_t                    judge{ctx, false, std::nullopt, {}};
    std::optional<objective_t> naive_l, naive_b, naive_s, naive_g;
    std::vector<double>        persample;
    eval_t                     first_l, first_b, first_s, first_g;
    bool                       skipped_nonfinite = false, any_kink = false;

    const auto nconfigs = c.threads.size();
    for (size_t k = 0; k < nconfigs && !judge.fail; ++k)
    {
        auto dataset = nano::dataset_t{*source, static_cast<size_t>(c.threads[k])};
        add_generators(dataset);
        if (dataset.samples() != n || dataset.columns() != ncols || nano::size(dataset.target_dims()) != tsize)
        {
            return verdict_t::violation("C09/harness/layout", cat("columns=", dataset.columns(), " expected ", ncols, ", targets=", nano::size(dataset.target_dims()), " expected ", tsize));
        }
        if (dataset.concurrency() != static_cast<size_t>(c.threads[k]))
        {
            return verdict_t::violation("C09/harness/threads", cat("concurrency=", dataset.concurrency(), " requested ", c.threads[k]));
        }
        const auto tdims = dataset.target_dims();
        if (k == 0)
        {
            soutputs.resize(nano::cat_dims(static_cast<tensor_size_t>(n), tdims));
            woutputs.resize(nano::cat_dims(static_cast<tensor_size_t>(n), tdims));
            goutputs.resize(nano::cat_dims(static_cast<tensor_size_t>(m), tdims));
            for (tensor_size_t i = 0; i < soutputs.size(); ++i)
            {
                soutputs(i) = c.soutputs[static_cast<size_t>(i)];
                woutputs(i) = c.woutputs[static_cast<size_t>(i)];
            }
            for (tensor_size_t i = 0; i < goutputs.size(); ++i)
            {
                goutputs(i) = c.goutputs[static_cast<size_t>(i)];
            }
        }

        const auto scaling = static_cast<nano::scaling_type>(c.scaling);

        // the callers' order: batch, scaling, then caching (src/linear.cpp)
        auto fiterator = nano::flatten_iterator_t{dataset, samples};
        fiterator.batch(c.batch[k]);
        fiterator.scaling(scaling);
        if (c.cache_flatten[k] != 0 && !fiterator.cache_flatten(std::numeric_limits<tensor_size_t>::max()))
        {
            return verdict_t::violation("C09/cache/flatten-refused", "cache_flatten(max) returned false");
        }
        if (c.cache_targets[k] != 0 && !fiterator.cache_targets(std::numeric_limits<tensor_size_t>::max()))
        {
            return verdict_t::violation("C09/cache/targets-refused", "cache_targets(max) returned false");
        }
        auto titerator = nano::targets_iterator_t{dataset, samples};
        titerator.batch(c.batch[k]);
        titerator.scaling(scaling);
        if (c.cache_targets[k] != 0 && !titerator.cache_targets(std::numeric_limits<tensor_size_t>::max()))
        {
            return verdict_t::violation("C09/cache/targets-refused", "cache_targets(max) returned false");
        }

        if (k == 0)
        {
            // -- the naive objectives: raw generated data, harness scaling from the iterator's statistics --------
            const auto& fstats = fiterator.flatten_stats();
            const auto& tstats = fiterator.targets_stats();
            if (fstats.m_min.size() != ncols || tstats.m_min.size() != tsize)
            {
                return verdict_t::violation("C09/harness/statistics-shape", cat(fstats.m_min.size(), " / ", tstats.m_min.size()));
            }
            // the raw views have to be the generated values (C08's property; guards the reference)
            nano::tensor2d_t fbuffer;
            nano::tensor4d_t tbuffer;
            const auto       flatten = dataset.flatten(samples, fbuffer);
            const auto       targets = dataset.targets(samples, tbuffer);

            data_t dt;
            dt.m     = m;
            dt.ncols = ncols;
            dt.tsize = tsize;
            dt.inputs.resize(static_cast<size_t>(m) * static_cast<size_t>(ncols));
            dt.targets.resize(static_cast<size_t>(m) * static_cast<size_t>(tsize));
            for (int i = 0; i < m; ++i)
            {
                const auto s = c.samples[static_cast<size_t>(i)];
                for (int j = 0; j < ncols; ++j)
                {
                    const auto raw = raw_input(d, layout.cols[static_cast<size_t>(j)], s);
                    if (!same_value(raw, flatten(i, j)))
                    {
                        return verdict_t::violation("C09/harness/raw-data-mismatch", cat("flatten(", i, ",", j, ")=", flatten(i, j), " generated ", raw));
                    }
                    dt.inputs[static_cast<size_t>(i) * static_cast<size_t>(ncols) + static_cast<size_t>(j)] = scale_ref(c.scaling, fstats, j, raw);
                }
                for (int t = 0; t < tsize; ++t)
                {
                    const auto raw = raw_target(d, s, t);
                    if (!same_value(raw, targets.tensor(i)(t)))
                    {
                        return verdict_t::violation("C09/harness/raw-data-mismatch", cat("targets(", i, ",", t, ")=", targets.tensor(i)(t), " generated ", raw));
                    }
                    dt.targets[static_cast<size_t>(i) * static_cast<size_t>(tsize) + static_cast<size_t>(t)] = scale_ref(c.scaling, tstats, t, raw);
                }
            }
            sample_loss_t sl(*loss, tsize);
            naive_l = naive_linear(c, dt, sl);
            naive_b = naive_bias(c, dt, sl);
            naive_s = naive_scale(c, dt, sl);
            naive_g = naive_grads(c, dt, sl, persample);
            for (const auto* o : {&*naive_l, &*naive_b, &*naive_s, &*naive_g})
            {
                skipped_nonfinite = skipped_nonfinite || !o->finite;
                for (const auto& g : o->grad)
                {
                    any_kink = any_kink || g.widen > 0;
                }
            }
        }

        const auto config = cat("configuration ", k, " (threads=", c.threads[k], " batch=", c.batch[k], " cache=", c.cache_flatten[k], "/", c.cache_targets[k], ")");

        // one objective: gradient call, value-only call, repeated gradient call; against the naive definition,
        // against the first configuration and against itself
        const auto run = [&](const char* name, const nano::function_t& function, const std::vector<double>& x, const objective_t& naive, eval_t& first)
        {
            if (!naive.finite || judge.fail)
            {
                return;
            }
            if (function.size() != static_cast<tensor_size_t>(x.size()))
            {
                judge.fail = verdict_t::violation(cat("C09/", name, "/size"), cat("size()=", function.size(), " expected ", x.size()));
                return;
            }
            const auto e1 = evaluate(function, x, true);
            const auto e2 = evaluate(function, x, false);
            const auto e3 = evaluate(function, x, true);
            compare(judge, e1, naive, cat("C09/", name, "/definition"), config);
            compare(judge, e2, naive, cat("C09/", name, "/definition-value-only"), config);
            compare(judge, e3, recentred(naive, e1), cat("C09/", name, "/repeated-evaluation"), config);
            if (k == 0)
            {
                first = e1;
                // a copy of the objective (what a solver working on function.clone() evaluates) is the same objective
                const auto cloned = function.clone();
                if (!cloned || cloned->size() != function.size())
                {
                    judge.fail = verdict_t::violation(cat("C09/", name, "/clone/size"), config);
                    return;
                }
                compare(judge, evaluate(*cloned, x, true), naive, cat("C09/", name, "/definition/clone"), config);
            }
            else
            {
                compare(judge, e1, recentred(naive, first), cat("C09/", name, "/configuration-dependence"), cat(config, " against configuration 0"));
            }
        };

        {
            const auto function = nano::linear::function_t{fiterator, *loss, c.l1, c.l2};
            run("linear", function, c.x, *naive_l, first_l);
        }
        {
            const auto function = nano::gboost::bias_function_t{titerator, *loss};
            run("gboost-bias", function, c.xbias, *naive_b, first_b);
        }
        {
            const auto function = nano::gboost::scale_function_t{titerator, *loss, cluster, soutputs, woutputs};
            run("gboost-scale", function, c.xscale, *naive_s, first_s);
        }
        {
            const auto function = nano::gboost::grads_function_t{titerator, *loss};
            run("gboost-grads", function, c.goutputs, *naive_g, first_g);
            if (naive_g->finite && !judge.fail)
            {
                // the per-sample loss gradients
                const auto& grads = function.gradients(goutputs);
                if (grads.size() != static_cast<tensor_size_t>(persample.size()))
                {
                    judge.fail = verdict_t::violation("C09/gboost-grads/gradients-shape", cat(grads.size(), " expected ", persample.size()));
                }
                const auto sps = judge.slot("gboost-grads/per-sample");
                for (size_t i = 0; i < persample.size() && !judge.fail; ++i)
                {
                    term_t want;
                    want.value = persample[i];
                    want.scale = std::fabs(persample[i]);
                    judge.test(
                        sps, grads(static_cast<tensor_size_t>(i)), want, [] { return std::string("C09/gboost-grads/per-sample-gradient"); },
                        [&] { return cat(config, ", entry ", i); });
                }
            }
        }
    }

    // -- classes, non-triviality --------------------------------------------------------------------
    bool any_missing = false;
    for (const auto f : d.inputs())
    {
        for (const auto s : c.samples)
        {
            any_missing = any_missing || !d.given(f, s);
        }
    }
    bool chunked_parallel = false, any_cached = false, any_unassigned = false;
    int  max_threads = 1;
    for (size_t k = 0; k < nconfigs; ++k)
    {
        chunked_parallel = chunked_parallel || (m > c.batch[k] && c.threads[k] >= 2);
        any_cached       = any_cached || c.cache_flatten[k] != 0 || c.cache_targets[k] != 0;
        max_threads      = std::max(max_threads, c.threads[k]);
    }
    for (const auto s : c.samples)
    {
        any_unassigned = any_unassigned || c.cluster[static_cast<size_t>(s)] < 0;
    }
    ctx.label(cat("loss/", loss_ids[c.loss]));
    static const char* scalings[] = {"scaling/none", "scaling/mean", "scaling/minmax", "scaling/standard"};
    ctx.label(scalings[c.scaling]);
    ctx.label_if(any_missing, "missing-values");
    ctx.label_if(chunked_parallel, "several-chunks-on-several-threads");
    ctx.label_if(any_cached, "cached");
    ctx.label_if(max_threads >= 9, "threads>=9");
    ctx.label_if(m < n, "sample-subset");
    ctx.label_if(m == 1, "one-sample");
    ctx.label_if(any_unassigned, "unassigned-samples");
    ctx.label_if(c.l1 > 0, "l1>0");
    ctx.label_if(c.l2 > 0, "l2>0");
    ctx.label_if(skipped_nonfinite, "objective-not-finite-skipped");
    ctx.label_if(any_kink, "ambiguous-subgradient");
    ctx.label_if(layout.target_categorical, "classification");
    ctx.label_if(!layout.target_categorical, "regression");
    ctx.nontrivial = chunked_parallel && any_missing;

    judge.flush();
    if (judge.fail)
    {
        return *judge.fail;
    }
    if (judge.borderline)
    {
        return verdict_t::borderline("tolerance-band");
    }
    return verdict_t::ok();
}

verdict_t check_case(const case_t& c, ctx_t& ctx)
{
    const auto& d = c.data;
    if (!d.valid() || d.target < 0 || !valid_subset(c.samples, d.samples))
    {
        return verdict_t::discard("malformed-case");
    }
    const auto layout = make_layout(d);
    const auto tspec  = d.spec(d.target);
    const auto ncols = static_cast<size_t>(layout.ncols()), tsize = static_cast<size_t>(layout.tsize), n = static_cast<size_t>(d.samples);
    const auto nconfigs = c.threads.size();
    if (tsize < 1 || c.loss < 0 || c.loss >= n_losses || c.scaling < 0 || c.scaling > 3 || nconfigs < 1 || c.batch.size() != nconfigs || c.cache_flatten.size() != nconfigs ||
        c.cache_targets.size() != nconfigs || c.x.size() != (ncols + 1) * tsize || c.xbias.size() != tsize || c.groups < 1 || c.cluster.size() != n ||
        c.xscale.size() != static_cast<size_t>(c.groups) || c.soutputs.size() != n * tsize || c.woutputs.size() != n * tsize || c.goutputs.size() != c.samples.size() * tsize ||
        !(c.l1 >= 0.0 && c.l1 <= 1e6) || !(c.l2 >= 0.0 && c.l2 <= 1e6) || !(c.alpha >= 0.0 && c.alpha <= 1.0))
    {
        return verdict_t::discard("malformed-case");
    }
    if (ncols < 1)
    {
        return verdict_t::discard("no-flatten-columns"); // only single-class categorical inputs: the linear objective needs at least one input
    }
    // loss compatible with the target (DESIGN.md 4.1: single-label losses need at most one positive label)
    const bool compatible = tspec.is_continuous() ? c.loss <= 3 : tspec.is_sclass() ? c.loss >= 4 : c.loss >= 11;
    if (!compatible)
    {
        return verdict_t::discard("loss-incompatible-with-target");
    }
    for (size_t k = 0; k < nconfigs; ++k)
    {
        if (c.threads[k] < 1 || c.threads[k] > 16 || c.batch[k] < 1 || c.batch[k] > 10000)
        {
            return verdict_t::discard("malformed-case");
        }
    }
    for (size_t s = 0; s < n; ++s)
    {
        if (c.cluster[s] < -1 || c.cluster[s] >= c.groups)
        {
            return verdict_t::discard("malformed-case");
        }
    }
    for (const auto* v : {&c.x, &c.xbias, &c.xscale, &c.soutputs, &c.woutputs, &c.goutputs})
    {
        for (const auto x : *v)
        {
            if (!std::isfinite(x))
            {
                return verdict_t::discard("malformed-case");
            }
        }
    }
    nano::verif::rng_state().store(0x09ULL * 2 + 1);
    try
    {
        return check_impl(c, ctx);
    }
    catch (const std::exception& e)
    {
        return verdict_t::violation("C09/exception", e.what());
    }
}
} // namespace

int main(int argc, char** argv)
{
    // thread counts 1..16 must be available whatever the machine (hook H2)
    ::setenv("NANO_VERIF_MAX_THREADS", "16", 1);
    suite_t suite("C09");
    suite.add<case_t>("objectives", gen_case, check_case, 1.0);
    return suite.main(argc, argv);
}
