// C12 — splitters and samplers return index sets with the promised set structure
// (DESIGN.md section 5, C12; statement: properties.jsonl "id":"C12").
//
// Sub-checks
//   kfold_exhaustive   one block of (n, folds) pairs x a seed range, k-fold splitter       (finite space)
//   random_exhaustive  one block of (n, folds) pairs x seeds x train percentages           (finite space)
//   splitter_random    n up to 5000, arbitrary distinct unsorted index values, both splitters
//   sampling           sample_with(out)_replacement, weighted sampling (weights with zeros)
//   ball               sample_from_ball, dimensions 1..50, radius 1e-6..1e6
//   gboost_sampler     gboost::sampler_t in its 5 modes
//
// The pairs (n, folds), n in 2..40, folds in 2..min(n,12), are numbered 0..373 in lexicographic order.
#include "common.h"

#include <algorithm>
#include <limits>
#include <numeric>

#include <nano/core/sampling.h>
#include <nano/core/verif.h>
#include <nano/gboost/sampler.h>
#include <nano/splitter.h>

using namespace verif;

namespace
{
using ints_t = std::vector<int64_t>;

constexpr double eps = std::numeric_limits<double>::epsilon();

// ---- helpers --------------------------------------------------------------------------------
nano::indices_t to_indices(const ints_t& v)
{
    nano::indices_t t(static_cast<nano::tensor_size_t>(v.size()));
    for (size_t i = 0; i < v.size(); ++i)
    {
        t(static_cast<nano::tensor_size_t>(i)) = static_cast<nano::tensor_size_t>(v[i]);
    }
    return t;
}

template <class ttensor>
ints_t to_ints(const ttensor& t)
{
    ints_t v(static_cast<size_t>(t.size()));
    for (nano::tensor_size_t i = 0; i < t.size(); ++i)
    {
        v[static_cast<size_t>(i)] = static_cast<int64_t>(t(i));
    }
    return v;
}

bool all_distinct(ints_t v)
{
    std::sort(v.begin(), v.end());
    return std::adjacent_find(v.begin(), v.end()) == v.end();
}

bool strictly_increasing(const ints_t& v)
{
    return std::adjacent_find(v.begin(), v.end(), [](int64_t a, int64_t b) { return a >= b; }) == v.end();
}

bool is_member(const ints_t& sorted_input, int64_t v)
{
    return std::binary_search(sorted_input.begin(), sorted_input.end(), v);
}

// splitmix64: a deterministic function of generated values (used to permute generated inputs)
uint64_t splitmix(uint64_t& s)
{
    uint64_t z = (s += 0x9e3779b97f4a7c15ULL);
    z          = (z ^ (z >> 30)) * 0xbf58476d1ce4e5b9ULL;
    z          = (z ^ (z >> 27)) * 0x94d049bb133111ebULL;
    return z ^ (z >> 31);
}

void permute(ints_t& v, uint64_t key)
{
    for (size_t i = v.size(); i > 1; --i)
    {
        const auto j = static_cast<size_t>(splitmix(key) % i);
        std::swap(v[i - 1], v[j]);
    }
}

// the (n, folds) pairs of the exhaustive sub-space
struct pair_t
{
    int n{0}, folds{0};
};

const std::vector<pair_t>& all_pairs()
{
    static const std::vector<pair_t> pairs = []
    {
        std::vector<pair_t> p;
        for (int n = 2; n <= 40; ++n)
        {
            for (int folds = 2; folds <= std::min(n, 12); ++folds)
            {
                p.push_back({n, folds});
            }
        }
        return p;
    }();
    return pairs;
}

std::string pair_label(const char* prefix, const pair_t& p)
{
    char buf[64];
    std::snprintf(buf, sizeof(buf), "%s n=%02d k=%02d", prefix, p.n, p.folds);
    return buf;
}

// distinct, non-contiguous, unsorted input of n values (41 is prime and > 40: i -> (41 i + 1) mod n is a bijection)
ints_t exhaustive_input(int n)
{
    ints_t v(static_cast<size_t>(n));
    for (int i = 0; i < n; ++i)
    {
        v[static_cast<size_t>(i)] = 5 + 3 * ((41 * i + 1) % n);
    }
    return v;
}

// ---- the split oracle -------------------------------------------------------------------------
struct splits_info_t
{
    size_t  count{0};
    int64_t min_valid{0}, max_valid{0};
};

// the configuration under check (formatted only when something fails)
struct where_t
{
    bool   random{false};
    size_t n{0};
    int    folds{0}, seed{0}, train_per{0};

    std::string who() const { return random ? "random" : "kfold"; }

    std::string str() const
    {
        return cat("n=", n, " folds=", folds, " seed=", seed, random ? cat(" train_per=", train_per) : std::string());
    }
};

// checks every (train, valid) pair of `splits` against the sorted input
verdict_t check_pairs(const where_t& where, const ints_t& sorted_input, const nano::splitter_t::splits_t& splits, splits_info_t& info)
{
    info.count = splits.size();
    bool first = true;
    static thread_local ints_t merged, overlap; // scratch buffers (cleared before every use)
    for (size_t f = 0; f < splits.size(); ++f)
    {
        const auto* const tb = splits[f].first.data();
        const auto* const te = tb + splits[f].first.size();
        const auto* const vb = splits[f].second.data();
        const auto* const ve = vb + splits[f].second.size();
        const auto        at = [&] { return cat(where.str(), " fold=", f, " |train|=", te - tb, " |valid|=", ve - vb); };

        if (!std::is_sorted(tb, te))
        {
            return verdict_t::violation("C12/" + where.who() + "/train-not-sorted", at());
        }
        if (!std::is_sorted(vb, ve))
        {
            return verdict_t::violation("C12/" + where.who() + "/valid-not-sorted", at());
        }
        overlap.clear();
        std::set_intersection(tb, te, vb, ve, std::back_inserter(overlap));
        if (!overlap.empty())
        {
            return verdict_t::violation("C12/" + where.who() + "/train-valid-overlap", cat(at(), " shared index ", overlap.front()));
        }
        merged.clear();
        std::merge(tb, te, vb, ve, std::back_inserter(merged));
        if (merged != sorted_input)
        {
            return verdict_t::violation("C12/" + where.who() + "/union-is-not-the-input", cat(at(), " n=", sorted_input.size()));
        }
        const auto size = static_cast<int64_t>(ve - vb);
        info.min_valid  = first ? size : std::min(info.min_valid, size);
        info.max_valid  = first ? size : std::max(info.max_valid, size);
        first           = false;
    }
    return verdict_t::ok();
}

// k-fold only: the k validation folds partition the input, sizes differ by less than k
verdict_t check_kfold_partition(const where_t& where, const ints_t& sorted_input, const nano::splitter_t::splits_t& splits,
                                const splits_info_t& info)
{
    if (splits.size() != static_cast<size_t>(where.folds))
    {
        return verdict_t::violation("C12/kfold/fold-count", cat(where.str(), " returned ", splits.size(), " splits"));
    }
    static thread_local ints_t all;
    all.clear();
    for (const auto& s : splits)
    {
        all.insert(all.end(), s.second.data(), s.second.data() + s.second.size());
    }
    std::sort(all.begin(), all.end());
    if (all != sorted_input)
    {
        return verdict_t::violation("C12/kfold/validation-folds-do-not-partition-the-input",
                                    cat(where.str(), " sum of validation sizes=", all.size(), " n=", sorted_input.size()));
    }
    if (!(info.max_valid - info.min_valid < where.folds))
    {
        return verdict_t::violation("C12/kfold/fold-sizes-differ-by-k-or-more",
                                    cat(where.str(), " min=", info.min_valid, " max=", info.max_valid));
    }
    return verdict_t::ok();
}

// random only: |train| == round(p n / 100) (half up, exact integer arithmetic)
verdict_t check_random_sizes(const where_t& where, const nano::splitter_t::splits_t& splits)
{
    const auto want = (static_cast<int64_t>(where.train_per) * static_cast<int64_t>(where.n) + 50) / 100;
    for (size_t f = 0; f < splits.size(); ++f)
    {
        if (static_cast<int64_t>(splits[f].first.size()) != want)
        {
            return verdict_t::violation("C12/random/train-size",
                                        cat(where.str(), " fold=", f, " |train|=", splits[f].first.size(), " want=", want));
        }
    }
    return verdict_t::ok();
}

bool same_indices(const nano::indices_t& a, const nano::indices_t& b)
{
    return a.size() == b.size() && std::equal(a.data(), a.data() + a.size(), b.data());
}

bool same_splits(const nano::splitter_t::splits_t& a, const nano::splitter_t::splits_t& b)
{
    if (a.size() != b.size())
    {
        return false;
    }
    for (size_t i = 0; i < a.size(); ++i)
    {
        if (!same_indices(a[i].first, b[i].first) || !same_indices(a[i].second, b[i].second))
        {
            return false;
        }
    }
    return true;
}

void configure(nano::splitter_t& splitter, const where_t& where)
{
    splitter.parameter("splitter::folds") = where.folds;
    splitter.parameter("splitter::seed")  = where.seed;
    if (where.random)
    {
        splitter.parameter("splitter::random::train_per") = where.train_per;
    }
}

nano::rsplitter_t make_splitter(const where_t& where)
{
    auto splitter = nano::splitter_t::all().get(where.random ? "random" : "k-fold");
    if (!splitter)
    {
        throw std::runtime_error("splitter factory returned null");
    }
    configure(*splitter, where);
    return splitter;
}

// one complete evaluation of a splitter configuration on one input.
// `reuse`: a splitter of the right kind that is reconfigured (null: a new one is taken from the factory)
verdict_t check_splitter(const where_t& where, const nano::indices_t& samples, const ints_t& sorted_input, bool check_equal_seeds,
                         splits_info_t& info, nano::splitter_t* reuse = nullptr)
{
    nano::rsplitter_t owned;
    if (reuse == nullptr)
    {
        owned = make_splitter(where);
        reuse = owned.get();
    }
    else
    {
        configure(*reuse, where);
    }
    const auto* const splitter = reuse;
    const auto        splits   = splitter->split(samples);

    if (auto v = check_pairs(where, sorted_input, splits, info); !v.is_ok())
    {
        return v;
    }
    if (where.random)
    {
        if (auto v = check_random_sizes(where, splits); !v.is_ok())
        {
            return v;
        }
    }
    else if (auto v = check_kfold_partition(where, sorted_input, splits, info); !v.is_ok())
    {
        return v;
    }
    if (check_equal_seeds)
    {
        // equal seeds => equal splits: the same object again, its clone, and an independently configured object
        if (!same_splits(splits, splitter->split(samples)))
        {
            return verdict_t::violation("C12/" + where.who() + "/equal-seeds/second-call-differs", where.str());
        }
        if (!same_splits(splits, splitter->clone()->split(samples)))
        {
            return verdict_t::violation("C12/" + where.who() + "/equal-seeds/clone-differs", where.str());
        }
        if (!same_splits(splits, make_splitter(where)->split(samples)))
        {
            return verdict_t::violation("C12/" + where.who() + "/equal-seeds/fresh-object-differs", where.str());
        }
    }
    return verdict_t::ok();
}

template <class tcheck>
verdict_t guarded(const char* where, const tcheck& check)
{
    try
    {
        return check();
    }
    catch (const std::exception& e)
    {
        return verdict_t::violation(std::string("C12/exception/") + where, e.what());
    }
}

// ---- exhaustive sub-checks ---------------------------------------------------------------------
struct xcase_t
{
    int pair_lo{0}, pair_hi{0}; // block of pair numbers (inclusive)
    int seed_lo{0}, seed_hi{1024};
    int mode{0}; // random splitter only: 0 = train percentages {10,25,50,80,90}, 1 and 2 = all 81 percentages 10..90

    template <class A>
    void io(A& a)
    {
        a("pair_lo", pair_lo);
        a("pair_hi", pair_hi);
        a("seed_lo", seed_lo);
        a("seed_hi", seed_hi);
        a("mode", mode);
    }
};

// generated cases: ONE pair, all 1025 seeds of the parameter domain
rc::Gen<xcase_t> gen_kfold_x()
{
    const auto npairs = static_cast<int>(all_pairs().size());
    return rc::gen::map(gen::range<int>(0, npairs - 1),
                        [](int p)
                        {
                            xcase_t c;
                            c.pair_lo = c.pair_hi = p;
                            return c;
                        });
}

// generated cases: ONE pair x train percentages {10,25,50,80,90} x all 1025 seeds (mode 0); with --full (thorough tier,
// cfg "args"): all 81 percentages x all 1025 seeds (mode 2).  Mode 1 (all 81 percentages x a seed range) is used by the
// replay file that walks every pair for seeds 0..15.
int& random_x_full()
{
    static int full = 0;
    return full;
}

rc::Gen<xcase_t> gen_random_x()
{
    const auto npairs = static_cast<int>(all_pairs().size());
    return rc::gen::map(gen::range<int>(0, npairs - 1),
                        [](int p)
                        {
                            xcase_t c;
                            c.pair_lo = c.pair_hi = p;
                            c.mode                = random_x_full() != 0 ? 2 : 0;
                            return c;
                        });
}

bool valid_xcase(const xcase_t& c)
{
    const auto npairs = static_cast<int>(all_pairs().size());
    return 0 <= c.pair_lo && c.pair_lo <= c.pair_hi && c.pair_hi < npairs && 0 <= c.seed_lo && c.seed_lo <= c.seed_hi &&
           c.seed_hi <= 1024 && c.mode >= 0 && c.mode <= 2;
}

verdict_t check_exhaustive(bool random, const xcase_t& c, ctx_t& ctx)
{
    if (!valid_xcase(c))
    {
        return verdict_t::discard("block-outside-the-space");
    }
    static const std::vector<int> five = {10, 25, 50, 80, 90};
    std::vector<int>              all81;
    for (int p = 10; p <= 90; ++p)
    {
        all81.push_back(p);
    }
    const auto& percentages = !random ? std::vector<int>{80} : (c.mode == 0 ? five : all81);

    uint64_t calls = 0;
    for (int ip = c.pair_lo; ip <= c.pair_hi; ++ip)
    {
        const auto pair   = all_pairs()[static_cast<size_t>(ip)];
        const auto input  = exhaustive_input(pair.n);
        auto       sorted = input;
        std::sort(sorted.begin(), sorted.end());
        const auto samples  = to_indices(input);
        const auto splitter = nano::splitter_t::all().get(random ? "random" : "k-fold"); // reconfigured per (seed, percentage)
        if (!splitter)
        {
            throw std::runtime_error("splitter factory returned null");
        }

        for (int seed = c.seed_lo; seed <= c.seed_hi; ++seed)
        {
            for (const auto per : percentages)
            {
                splits_info_t info;
                const auto    where = where_t{random, input.size(), pair.folds, seed, per};
                // equal seeds => equal splits is evaluated on a sample of the configurations (it quadruples the cost)
                const bool equal_seeds = (seed % 32) == (ip % 32);
                if (auto v = check_splitter(where, samples, sorted, equal_seeds, info, splitter.get()); !v.is_ok())
                {
                    return v;
                }
                ++calls;
            }
        }
        ctx.label(pair_label(!random ? "kfold" : c.mode == 0 ? "random5" : "random81", pair));
        ctx.label_if(pair.n % pair.folds != 0, "n-not-divisible-by-folds");
        ctx.label_if(pair.n < 2 * pair.folds, "n<2*folds");
        ctx.label_if(pair.n == pair.folds, "n==folds");
        ctx.nontrivial = ctx.nontrivial || pair.n % pair.folds != 0 || pair.n < 2 * pair.folds;
    }
    ctx.label_if(random && c.mode == 0, "random: 5 percentages x seeds");
    ctx.label_if(random && c.mode >= 1, "random: 81 percentages x seeds");
    ctx.label_if(c.seed_lo == 0 && c.seed_hi == 1024, "all-1025-seeds");
    ctx.maximum("splits-per-case", static_cast<double>(calls));
    return verdict_t::ok();
}

verdict_t check_kfold_x(const xcase_t& c, ctx_t& ctx)
{
    return guarded("kfold_exhaustive", [&] { return check_exhaustive(false, c, ctx); });
}

verdict_t check_random_x(const xcase_t& c, ctx_t& ctx)
{
    return guarded("random_exhaustive", [&] { return check_exhaustive(true, c, ctx); });
}

// ---- random splitter inputs ----------------------------------------------------------------------
struct scase_t
{
    bool   random{false};
    ints_t samples;
    int    folds{2}, seed{0}, train_per{80};

    template <class A>
    void io(A& a)
    {
        a("random", random);
        a("samples", samples);
        a("folds", folds);
        a("seed", seed);
        a("train_per", train_per);
    }
};

// n distinct index values: style 0 contiguous from an offset, 1 random gaps, 2 huge gaps; order: sorted / reversed / permuted
rc::Gen<ints_t> gen_distinct(size_t n)
{
    return rc::gen::map(rc::gen::tuple(gen::range<int>(0, 2), gen::range<int>(0, 2), gen::range<int64_t>(0, 1000000),
                                       gen::range<uint64_t>(0, (uint64_t(1) << 62))),
                        [n](const std::tuple<int, int, int64_t, uint64_t>& t)
                        {
                            const auto [style, order, offset, key0] = t;
                            auto   key = key0;
                            ints_t v(n);
                            auto   value = offset;
                            for (size_t i = 0; i < n; ++i)
                            {
                                v[i] = value;
                                value += style == 0 ? 1 : style == 1 ? 1 + static_cast<int64_t>(splitmix(key) % 7) : 1 + static_cast<int64_t>(splitmix(key) % 1000003);
                            }
                            if (order == 1)
                            {
                                std::reverse(v.begin(), v.end());
                            }
                            else if (order == 2)
                            {
                                permute(v, key);
                            }
                            return v;
                        });
}

rc::Gen<size_t> gen_size(size_t lo)
{
    // mostly small (all remainder classes against the fold count), some up to 5000
    return rc::gen::oneOf(gen::range<size_t>(lo, 30), gen::range<size_t>(lo, 30), gen::range<size_t>(lo, 300), gen::range<size_t>(lo, 5000));
}

rc::Gen<scase_t> gen_scase()
{
    return rc::gen::mapcat(
        gen_size(1),
        [](size_t n)
        {
            // folds: inside 2..min(n,12) (as the exhaustive part), up to n, or anywhere in the parameter domain 2..100
            const auto hi    = static_cast<int>(std::max<size_t>(2, std::min<size_t>(n, 100)));
            const auto folds = rc::gen::oneOf(gen::range<int>(2, std::min(hi, 12)), gen::range<int>(2, hi), gen::range<int>(2, 100));
            return rc::gen::map(rc::gen::tuple(rc::gen::arbitrary<bool>(), gen_distinct(n), folds, gen::range<int>(0, 1024),
                                               rc::gen::oneOf(gen::range<int>(10, 90), rc::gen::element(10, 50, 90))),
                                [](const std::tuple<bool, ints_t, int, int, int>& t)
                                {
                                    scase_t c;
                                    c.random    = std::get<0>(t);
                                    c.samples   = std::get<1>(t);
                                    c.folds     = std::get<2>(t);
                                    c.seed      = std::get<3>(t);
                                    c.train_per = std::get<4>(t);
                                    return c;
                                });
        });
}

verdict_t check_scase(const scase_t& c, ctx_t& ctx)
{
    if (c.samples.empty() || c.samples.size() > 5000 || !all_distinct(c.samples))
    {
        return verdict_t::discard("input-not-a-list-of-distinct-indices");
    }
    if (c.folds < 2 || c.folds > 100 || c.seed < 0 || c.seed > 1024 || c.train_per < 10 || c.train_per > 90)
    {
        return verdict_t::discard("configuration-outside-the-parameter-domain");
    }
    if (*std::min_element(c.samples.begin(), c.samples.end()) < 0)
    {
        return verdict_t::discard("negative-index");
    }
    return guarded("splitter_random",
                   [&]
                   {
                       auto sorted = c.samples;
                       std::sort(sorted.begin(), sorted.end());
                       splits_info_t info;
                       const auto    where = where_t{c.random, c.samples.size(), c.folds, c.seed, c.train_per};
                       if (auto v = check_splitter(where, to_indices(c.samples), sorted, true, info); !v.is_ok())
                       {
                           return v;
                       }
                       const auto n = static_cast<int64_t>(c.samples.size());
                       ctx.label(c.random ? "random" : "k-fold");
                       ctx.label_if(n % c.folds != 0, "n-not-divisible-by-folds");
                       ctx.label_if(n < 2 * c.folds, "n<2*folds");
                       ctx.label_if(n < c.folds, "n<folds");
                       ctx.label_if(n > 300, "n>300");
                       ctx.label_if(!std::is_sorted(c.samples.begin(), c.samples.end()), "unsorted-input");
                       ctx.label_if(sorted.back() - sorted.front() + 1 != n, "non-contiguous-input");
                       ctx.label_if(c.random && info.count != static_cast<size_t>(c.folds), "random: number of splits != folds");
                       ctx.label_if(c.random && (c.train_per * n) % 100 == 50, "random: train size at a rounding tie");
                       ctx.nontrivial = info.count > 0 && (n % c.folds != 0 || n < 2 * c.folds);
                       return verdict_t::ok();
                   });
}

// ---- sampling ---------------------------------------------------------------------------------------
struct mcase_t
{
    int                 mode{0}; // 0 without replacement, 1 with replacement, 2 weighted with replacement
    bool                default_rng{false};
    ints_t              samples;
    std::vector<double> weights; // mode 2
    int64_t             count{0};
    uint64_t            seed{1};

    template <class A>
    void io(A& a)
    {
        a("mode", mode);
        a("default_rng", default_rng);
        a("samples", samples);
        a("weights", weights);
        a("count", count);
        a("seed", seed);
    }
};

rc::Gen<std::vector<double>> gen_weights(size_t n)
{
    // zero fraction 0 / some / almost all; at least one positive by construction (position `keep`)
    return rc::gen::mapcat(
        rc::gen::pair(rc::gen::element(0, 30, 60, 95, 100), gen::range<size_t>(0, n - 1)),
        [n](const std::pair<int, size_t>& zk)
        {
            const auto zero_percent = zk.first;
            const auto keep         = zk.second;
            const auto elem         = rc::gen::mapcat(gen::chance(zero_percent),
                                                      [](bool zero) -> rc::Gen<double>
                                                      {
                                                          if (zero)
                                                          {
                                                              return rc::gen::just(0.0);
                                                          }
                                                          return rc::gen::oneOf(gen::logu(1e-6, 1e6), gen::smallint(1, 3));
                                                      });
            // overall magnitude: mostly ordinary, sometimes tiny (e.g. losses of a nearly converged model) or huge
            const auto scale = rc::gen::oneOf(rc::gen::just(1.0), rc::gen::just(1.0), rc::gen::just(1.0), gen::logu(1e-250, 1e-10), gen::logu(1e-20, 1e-12),
                                              gen::logu(1e10, 1e250));
            return rc::gen::map(rc::gen::tuple(rc::gen::container<std::vector<double>>(n, elem), gen::logu(1e-6, 1e6), scale),
                                [keep](std::tuple<std::vector<double>, double, double> wp)
                                {
                                    auto& w = std::get<0>(wp);
                                    if (w[keep] <= 0.0)
                                    {
                                        w[keep] = std::get<1>(wp);
                                    }
                                    for (auto& x : w)
                                    {
                                        x *= std::get<2>(wp);
                                    }
                                    return w;
                                });
        });
}

rc::Gen<mcase_t> gen_mcase()
{
    return rc::gen::mapcat(
        rc::gen::pair(gen::range<int>(0, 2), rc::gen::oneOf(gen::range<size_t>(1, 12), gen::range<size_t>(1, 100), gen::range<size_t>(1, 2000), gen::range<size_t>(2000, 5000))),
        [](const std::pair<int, size_t>& mn)
        {
            const auto mode = mn.first;
            const auto n    = mn.second;
            // counts: 0, n, anything in between
            const auto count   = rc::gen::oneOf(gen::range<int64_t>(0, static_cast<int64_t>(n)),
                                                rc::gen::element<int64_t>(0, static_cast<int64_t>(n), static_cast<int64_t>(n) - 1, 1));
            const auto weights = mode == 2 ? gen_weights(n) : rc::gen::just(std::vector<double>{});
            return rc::gen::map(rc::gen::tuple(gen_distinct(n), weights, count, gen::range<uint64_t>(0, 1u << 31), gen::chance(25)),
                                [mode](const std::tuple<ints_t, std::vector<double>, int64_t, uint64_t, bool>& t)
                                {
                                    mcase_t c;
                                    c.mode        = mode;
                                    c.samples     = std::get<0>(t);
                                    c.weights     = std::get<1>(t);
                                    c.count       = std::max<int64_t>(0, std::get<2>(t));
                                    c.seed        = std::get<3>(t);
                                    c.default_rng = std::get<4>(t);
                                    return c;
                                });
        });
}

nano::tensor1d_t to_tensor(const std::vector<double>& v)
{
    nano::tensor1d_t t(static_cast<nano::tensor_size_t>(v.size()));
    for (size_t i = 0; i < v.size(); ++i)
    {
        t(static_cast<nano::tensor_size_t>(i)) = v[i];
    }
    return t;
}

// common oracle of the sampling functions
verdict_t check_selection(const std::string& who, const ints_t& selection, int64_t count, bool distinct, const ints_t& sorted_input,
                          const std::map<int64_t, double>* weight_of, const std::string& where)
{
    if (static_cast<int64_t>(selection.size()) != count)
    {
        return verdict_t::violation("C12/" + who + "/count", cat(where, " returned ", selection.size()));
    }
    if (!std::is_sorted(selection.begin(), selection.end()))
    {
        return verdict_t::violation("C12/" + who + "/not-sorted", where);
    }
    if (distinct && !strictly_increasing(selection))
    {
        return verdict_t::violation("C12/" + who + "/duplicates", where);
    }
    for (const auto v : selection)
    {
        if (!is_member(sorted_input, v))
        {
            return verdict_t::violation("C12/" + who + "/not-a-member-of-the-input", cat(where, " value ", v));
        }
        if (weight_of != nullptr && !(weight_of->at(v) > 0.0))
        {
            return verdict_t::violation("C12/" + who + "/zero-weight-index-returned", cat(where, " value ", v));
        }
    }
    return verdict_t::ok();
}

verdict_t check_mcase(const mcase_t& c, ctx_t& ctx)
{
    const auto n = static_cast<int64_t>(c.samples.size());
    if (n == 0 || !all_distinct(c.samples) || c.mode < 0 || c.mode > 2)
    {
        return verdict_t::discard("input-not-a-non-empty-list-of-distinct-indices");
    }
    if (c.count < 0 || c.count > n)
    {
        return verdict_t::discard("count-outside-0..n");
    }
    bool   has_zero = false;
    double wmax     = 0.0;
    if (c.mode == 2)
    {
        if (static_cast<int64_t>(c.weights.size()) != n)
        {
            return verdict_t::discard("weights-size");
        }
        for (const auto w : c.weights)
        {
            if (!(w >= 0.0) || !std::isfinite(w))
            {
                return verdict_t::discard("negative-or-non-finite-weight");
            }
            has_zero = has_zero || w == 0.0;
            wmax     = std::max(wmax, w);
        }
        if (!(wmax > 0.0))
        {
            return verdict_t::discard("no-positive-weight");
        }
    }
    return guarded("sampling",
                   [&]
                   {
                       nano::verif::rng_state().store(1 + (c.seed % 1000003ULL)); // pins make_rng() without seed
                       auto sorted = c.samples;
                       std::sort(sorted.begin(), sorted.end());
                       const auto samples = to_indices(c.samples);
                       const auto weights = to_tensor(c.weights);
                       auto       rng     = nano::make_rng(c.seed);
                       const auto where   = cat("n=", n, " count=", c.count, c.default_rng ? " default rng" : cat(" seed=", c.seed));

                       std::map<int64_t, double> weight_of;
                       for (size_t i = 0; c.mode == 2 && i < c.samples.size(); ++i)
                       {
                           weight_of[c.samples[i]] = c.weights[i];
                       }

                       // consecutive draws (each continues the generator's sequence); more of them for the large lists, where a
                       // defect that depends on the value of a single generator output is otherwise too rare to meet
                       for (int draw = 0, draws = n >= 1000 ? 8 : 2; draw < draws; ++draw)
                       {
                           nano::indices_t selection;
                           const char*     who = "";
                           switch (c.mode)
                           {
                           case 0:
                               who       = "without-replacement";
                               selection = c.default_rng ? nano::sample_without_replacement(samples, c.count)
                                                         : nano::sample_without_replacement(samples, c.count, rng);
                               break;
                           case 1:
                               who       = "with-replacement";
                               selection = c.default_rng ? nano::sample_with_replacement(samples, c.count)
                                                         : nano::sample_with_replacement(samples, c.count, rng);
                               break;
                           default:
                               who       = "weighted";
                               selection = c.default_rng ? nano::sample_with_replacement(samples, weights, c.count)
                                                         : nano::sample_with_replacement(samples, weights, c.count, rng);
                               break;
                           }
                           if (auto v = check_selection(who, to_ints(selection), c.count, c.mode == 0, sorted, c.mode == 2 ? &weight_of : nullptr, where);
                               !v.is_ok())
                           {
                               return v;
                           }
                       }
                       nano::verif::rng_state().store(0);

                       static const char* modes[] = {"without-replacement", "with-replacement", "weighted"};
                       ctx.label(modes[c.mode]);
                       ctx.label_if(c.default_rng, "default-seeded rng");
                       ctx.label_if(c.count == 0, "count==0");
                       ctx.label_if(c.count == n, "count==n");
                       ctx.label_if(has_zero, "weights-with-zeros");
                       ctx.label_if(c.mode == 2 && !has_zero, "weights-all-positive");
                       ctx.label_if(n == 1, "n==1");
                       ctx.label_if(n > 2000, "n>2000");
                       ctx.nontrivial = c.count > 0 && (c.mode == 2 ? has_zero : (c.count < n || c.mode == 1) && n > 1);
                       return verdict_t::ok();
                   });
}

// ---- ball ---------------------------------------------------------------------------------------------
struct bcase_t
{
    std::vector<double> x0;
    double              radius{1.0};
    uint64_t            seed{1};
    int                 variant{0}; // 0 returning + rng, 1 in-place + rng, 2 returning + default rng, 3 in-place + default rng

    template <class A>
    void io(A& a)
    {
        a("x0", x0);
        a("radius", radius);
        a("seed", seed);
        a("variant", variant);
    }
};

rc::Gen<bcase_t> gen_bcase()
{
    return rc::gen::mapcat(
        rc::gen::pair(rc::gen::oneOf(gen::range<size_t>(1, 4), gen::range<size_t>(1, 50)), rc::gen::element(0.0, 1.0, 1e3)),
        [](const std::pair<size_t, double>& dn)
        {
            const auto d = dn.first;
            // centre: zero, up to norm ~1, up to norm 1e3
            const auto scale  = dn.second / std::sqrt(static_cast<double>(d));
            const auto radius = rc::gen::oneOf(gen::logu(1e-6, 1e6), rc::gen::element(1e-6, 1.0, 1e6));
            return rc::gen::map(rc::gen::tuple(gen::vec(d, scale), radius, gen::range<uint64_t>(0, 1u << 31), gen::range<int>(0, 3)),
                                [](const std::tuple<std::vector<double>, double, uint64_t, int>& t)
                                {
                                    bcase_t c;
                                    c.x0      = std::get<0>(t);
                                    c.radius  = std::get<1>(t);
                                    c.seed    = std::get<2>(t);
                                    c.variant = std::get<3>(t);
                                    return c;
                                });
        });
}

verdict_t check_bcase(const bcase_t& c, ctx_t& ctx)
{
    const auto d = c.x0.size();
    if (d < 1 || d > 50 || !(c.radius >= 1e-6 && c.radius <= 1e6) || c.variant < 0 || c.variant > 3)
    {
        return verdict_t::discard("outside-the-stated-domain");
    }
    long double norm0 = 0.0L;
    for (const auto v : c.x0)
    {
        if (!std::isfinite(v))
        {
            return verdict_t::discard("non-finite-centre");
        }
        norm0 += static_cast<long double>(v) * v;
    }
    norm0 = std::sqrt(norm0);
    if (norm0 > 1.0001e3L)
    {
        return verdict_t::discard("centre-norm-above-1e3");
    }
    return guarded("ball",
                   [&]
                   {
                       nano::verif::rng_state().store(1 + (c.seed % 1000003ULL));
                       nano::vector_t x0(static_cast<nano::tensor_size_t>(d));
                       for (size_t i = 0; i < d; ++i)
                       {
                           x0(static_cast<nano::tensor_size_t>(i)) = c.x0[i];
                       }
                       auto rng = nano::make_rng(c.seed);
                       // allowance: the stated bound + rounding of x = x0 + step in double
                       const auto tol = static_cast<long double>(c.radius) * 1e-12L +
                                        4.0L * eps * norm0 * std::sqrt(static_cast<long double>(d));
                       bool borderline = false;
                       for (int draw = 0; draw < 8; ++draw)
                       {
                           nano::vector_t x(static_cast<nano::tensor_size_t>(d));
                           switch (c.variant)
                           {
                           case 0: x = nano::sample_from_ball(x0, c.radius, rng); break;
                           case 1: nano::sample_from_ball(x0, c.radius, x, rng); break;
                           case 2: x = nano::sample_from_ball(x0, c.radius); break;
                           default: nano::sample_from_ball(x0, c.radius, x); break;
                           }
                           if (x.size() != static_cast<nano::tensor_size_t>(d))
                           {
                               return verdict_t::violation("C12/ball/dimension", cat("d=", d, " returned ", x.size()));
                           }
                           long double dist = 0.0L;
                           for (size_t i = 0; i < d; ++i)
                           {
                               const auto xi = x(static_cast<nano::tensor_size_t>(i));
                               if (!std::isfinite(xi))
                               {
                                   return verdict_t::violation("C12/ball/non-finite-point", cat("d=", d, " radius=", c.radius, " draw=", draw));
                               }
                               const auto delta = static_cast<long double>(xi) - static_cast<long double>(c.x0[i]);
                               dist += delta * delta;
                           }
                           dist = std::sqrt(dist);
                           const auto excess = dist - static_cast<long double>(c.radius);
                           ctx.maximum("ball: distance/radius", static_cast<double>(dist / c.radius));
                           if (tol > 0.0L)
                           {
                               ctx.maximum("ball: (distance-radius)/allowance", static_cast<double>(excess / tol));
                           }
                           if (excess > 10.0L * tol)
                           {
                               return verdict_t::violation("C12/ball/point-outside",
                                                           cat("d=", d, " radius=", c.radius, " |x0|=", static_cast<double>(norm0),
                                                               " distance=", static_cast<double>(dist), " draw=", draw));
                           }
                           borderline = borderline || excess > tol;
                       }
                       nano::verif::rng_state().store(0);
                       if (borderline)
                       {
                           return verdict_t::borderline("ball/point-outside");
                       }
                       ctx.label(c.variant < 2 ? "explicit rng" : "default-seeded rng");
                       ctx.label(c.variant % 2 == 0 ? "returning overload" : "in-place overload");
                       ctx.label_if(d == 1, "d==1");
                       ctx.label_if(d >= 20, "d>=20");
                       ctx.label_if(norm0 == 0.0L, "centre at origin");
                       ctx.label_if(norm0 > 100.0L * c.radius, "centre norm >> radius");
                       ctx.label_if(c.radius <= 1e-5, "radius<=1e-5");
                       ctx.label_if(c.radius >= 1e5, "radius>=1e5");
                       ctx.nontrivial = d >= 2 && norm0 > 0.0L;
                       return verdict_t::ok();
                   });
}

// ---- gboost sampler -----------------------------------------------------------------------------------
struct gcase_t
{
    int                 mode{0}; // 0 off, 1 subsample, 2 bootstrap, 3 wei_loss_bootstrap, 4 wei_grad_bootstrap
    ints_t              samples; // training samples: distinct indices in [0, total)
    int64_t             total{0};
    std::vector<double> losses;    // per sample index (size total)
    std::vector<double> gradients; // per sample index x tdim (size total * tdim)
    int                 tdim{1};
    double              ratio{1.0};
    uint64_t            seed{1};

    template <class A>
    void io(A& a)
    {
        a("mode", mode);
        a("samples", samples);
        a("total", total);
        a("losses", losses);
        a("gradients", gradients);
        a("tdim", tdim);
        a("ratio", ratio);
        a("seed", seed);
    }
};

rc::Gen<gcase_t> gen_gcase()
{
    return rc::gen::mapcat(
        rc::gen::tuple(gen::range<int>(0, 4), rc::gen::oneOf(gen::range<size_t>(1, 10), gen::range<size_t>(1, 200)), gen::range<int>(1, 3),
                       rc::gen::element(0, 30, 60, 95), gen::chance(25)),
        [](const std::tuple<int, size_t, int, int, bool>& t)
        {
            const auto mode         = std::get<0>(t);
            const auto n            = std::get<1>(t);
            const auto tdim         = std::get<2>(t);
            const auto zero_percent = std::get<3>(t);
            const auto total = n + n / 2 + 1; // the training samples are a strict subset of all samples
            // magnitudes: ordinary, or tiny (losses / gradients of a nearly converged model); not below 1e-120: the squares of
            // gradient components below ~1e-154 underflow in the L2 norm, which is a floating-point range limit, not the property
            const bool tiny  = std::get<4>(t);
            const auto value = rc::gen::mapcat(gen::chance(zero_percent),
                                               [tiny](bool zero) -> rc::Gen<double>
                                               { return zero ? rc::gen::just(0.0) : (tiny ? gen::logu(1e-120, 1e-14) : gen::logu(1e-6, 1e3)); });
            const auto ratio = rc::gen::oneOf(gen::real(0.01, 1.0), rc::gen::element(1.0, 0.5, 0.1));
            return rc::gen::map(
                rc::gen::tuple(gen::range<uint64_t>(0, (uint64_t(1) << 62)), rc::gen::container<std::vector<double>>(total, value),
                               rc::gen::container<std::vector<double>>(total * static_cast<size_t>(tdim), value), ratio,
                               gen::range<uint64_t>(0, 1u << 31), gen::range<size_t>(0, n - 1), rc::gen::container<std::vector<double>>(static_cast<size_t>(tdim), gen::sym(1.0))),
                [=](const std::tuple<uint64_t, std::vector<double>, std::vector<double>, double, uint64_t, size_t, std::vector<double>>& u)
                {
                    gcase_t c;
                    c.mode  = mode;
                    c.total = static_cast<int64_t>(total);
                    c.tdim  = tdim;
                    // n distinct indices below total, in permuted order
                    ints_t all(total);
                    std::iota(all.begin(), all.end(), int64_t{0});
                    permute(all, std::get<0>(u));
                    all.resize(n);
                    c.samples   = all;
                    c.losses    = std::get<1>(u);
                    c.gradients = std::get<2>(u);
                    c.ratio     = std::get<3>(u);
                    c.seed      = std::get<4>(u);
                    // at least one training sample with a positive weight (loss and gradient); signs on the gradients
                    const auto keep = static_cast<size_t>(c.samples[std::get<5>(u)]);
                    if (!(c.losses[keep] > 0.0))
                    {
                        c.losses[keep] = 1.5;
                    }
                    const auto& signs = std::get<6>(u);
                    for (size_t i = 0; i < total; ++i)
                    {
                        for (size_t k = 0; k < static_cast<size_t>(tdim); ++k)
                        {
                            c.gradients[i * static_cast<size_t>(tdim) + k] *= (signs[k] < 0.0 ? -1.0 : 1.0);
                        }
                    }
                    if (c.gradients[keep * static_cast<size_t>(tdim)] == 0.0)
                    {
                        c.gradients[keep * static_cast<size_t>(tdim)] = -0.25;
                    }
                    return c;
                });
        });
}

verdict_t check_gcase(const gcase_t& c, ctx_t& ctx)
{
    const auto n = static_cast<int64_t>(c.samples.size());
    if (n == 0 || c.total < n || c.tdim < 1 || c.mode < 0 || c.mode > 4 || static_cast<int64_t>(c.losses.size()) != c.total ||
        static_cast<int64_t>(c.gradients.size()) != c.total * c.tdim || !all_distinct(c.samples))
    {
        return verdict_t::discard("malformed-case");
    }
    if (!(c.ratio > 0.0 && c.ratio <= 1.0))
    {
        return verdict_t::discard("ratio-outside-(0,1]");
    }
    for (const auto s : c.samples)
    {
        if (s < 0 || s >= c.total)
        {
            return verdict_t::discard("sample-index-out-of-range");
        }
    }
    // per training sample weights as the two weighted modes define them
    std::map<int64_t, double> loss_weight, grad_weight;
    bool                      loss_zero = false, grad_zero = false, loss_pos = false, grad_pos = false;
    for (const auto s : c.samples)
    {
        const auto lw = c.losses[static_cast<size_t>(s)];
        double     gw = 0.0;
        for (int k = 0; k < c.tdim; ++k)
        {
            const auto g = c.gradients[static_cast<size_t>(s) * static_cast<size_t>(c.tdim) + static_cast<size_t>(k)];
            if (!std::isfinite(g))
            {
                return verdict_t::discard("non-finite-gradient");
            }
            gw = std::max(gw, std::fabs(g)); // positive iff the gradient vector is non-zero
        }
        if (!(lw >= 0.0) || !std::isfinite(lw))
        {
            return verdict_t::discard("negative-or-non-finite-loss");
        }
        loss_weight[s] = lw;
        grad_weight[s] = gw;
        loss_zero      = loss_zero || lw == 0.0;
        grad_zero      = grad_zero || gw == 0.0;
        loss_pos       = loss_pos || lw > 0.0;
        grad_pos       = grad_pos || gw > 0.0;
    }
    if ((c.mode == 3 && !loss_pos) || (c.mode == 4 && !grad_pos))
    {
        return verdict_t::discard("no-positive-weight");
    }
    return guarded("gboost_sampler",
                   [&]
                   {
                       static const nano::gboost_subsample modes[] = {nano::gboost_subsample::off, nano::gboost_subsample::subsample,
                                                                      nano::gboost_subsample::bootstrap, nano::gboost_subsample::wei_loss_bootstrap,
                                                                      nano::gboost_subsample::wei_grad_bootstrap};
                       static const char* names[] = {"gboost/off", "gboost/subsample", "gboost/bootstrap", "gboost/wei_loss_bootstrap",
                                                     "gboost/wei_grad_bootstrap"};

                       const auto samples = to_indices(c.samples);
                       auto       sorted  = c.samples;
                       std::sort(sorted.begin(), sorted.end());

                       nano::tensor2d_t errors_losses(2, static_cast<nano::tensor_size_t>(c.total));
                       nano::tensor4d_t gradients(static_cast<nano::tensor_size_t>(c.total), static_cast<nano::tensor_size_t>(c.tdim), 1, 1);
                       for (int64_t i = 0; i < c.total; ++i)
                       {
                           errors_losses(0, i) = 0.0;
                           errors_losses(1, i) = c.losses[static_cast<size_t>(i)];
                           for (int k = 0; k < c.tdim; ++k)
                           {
                               gradients(i, k, 0, 0) = c.gradients[static_cast<size_t>(i) * static_cast<size_t>(c.tdim) + static_cast<size_t>(k)];
                           }
                       }

                       auto       sampler = nano::gboost::sampler_t{samples, modes[c.mode], c.seed, c.ratio};
                       const auto where   = cat("mode=", names[c.mode], " n=", n, " ratio=", c.ratio, " seed=", c.seed);
                       const auto target  = c.ratio * static_cast<double>(n);
                       for (int round = 0; round < 3; ++round)
                       {
                           // the SAME sampler object serves every boosting round with the losses / gradients of that round: in round r
                           // the training sample at position j carries the values generated for position (j + r) mod n, so that the
                           // zero-weight samples of one round have a positive weight in another one
                           if (round > 0)
                           {
                               for (int64_t j = 0; j < n; ++j)
                               {
                                   const auto dst = c.samples[static_cast<size_t>(j)];
                                   const auto src = static_cast<size_t>(c.samples[static_cast<size_t>((j + round) % n)]);
                                   errors_losses(1, dst) = c.losses[src];
                                   double gw             = 0.0;
                                   for (int k = 0; k < c.tdim; ++k)
                                   {
                                       const auto g = c.gradients[src * static_cast<size_t>(c.tdim) + static_cast<size_t>(k)];
                                       gradients(dst, k, 0, 0) = g;
                                       gw                      = std::max(gw, std::fabs(g));
                                   }
                                   loss_weight[dst] = c.losses[src];
                                   grad_weight[dst] = gw;
                               }
                           }
                           const auto selection = to_ints(sampler.sample(errors_losses, gradients));
                           if (c.mode == 0)
                           {
                               // no sampling: only membership is part of the statement
                               for (const auto v : selection)
                               {
                                   if (!is_member(sorted, v))
                                   {
                                       return verdict_t::violation("C12/gboost/off/not-a-member-of-the-input", cat(where, " value ", v));
                                   }
                               }
                               continue;
                           }
                           // `count` is derived from the ratio: any integer within one of ratio * n is accepted
                           const auto size = static_cast<double>(selection.size());
                           if (!(std::fabs(size - target) < 1.0 + 1e-9 * target) || static_cast<int64_t>(selection.size()) > n)
                           {
                               return verdict_t::violation(std::string("C12/") + names[c.mode] + "/count", cat(where, " returned ", selection.size()));
                           }
                           const auto* weight_of = c.mode == 3 ? &loss_weight : c.mode == 4 ? &grad_weight : nullptr;
                           if (auto v = check_selection(names[c.mode], selection, static_cast<int64_t>(selection.size()), c.mode == 1, sorted, weight_of, where);
                               !v.is_ok())
                           {
                               return v;
                           }
                       }
                       const bool has_zero = (c.mode == 3 && loss_zero) || (c.mode == 4 && grad_zero);
                       ctx.label(names[c.mode]);
                       ctx.label_if(has_zero, "weights-with-zeros");
                       ctx.label_if(target < 1.0, "ratio*n<1");
                       ctx.label_if(c.ratio == 1.0, "ratio==1");
                       ctx.nontrivial = target >= 1.0 && (c.mode >= 3 ? has_zero : c.mode >= 1);
                       return verdict_t::ok();
                   });
}
} // namespace

int main(int argc, char** argv)
{
    // `--full` (thorough tier, cfg "args"): random_exhaustive cases cover all 81 percentages x all 1025 seeds of their pair
    std::vector<char*> args;
    for (int i = 0; i < argc; ++i)
    {
        if (i > 0 && std::string(argv[i]) == "--full")
        {
            random_x_full() = 1;
        }
        else
        {
            args.push_back(argv[i]);
        }
    }

    suite_t suite("C12");
    // weights = share of the case budget (cfg/C12.py: 70 000 quick => 7 484 >= 20 x 374 cases for each exhaustive sub-check)
    suite.add<xcase_t>("kfold_exhaustive", gen_kfold_x, check_kfold_x, 7484.0);
    suite.add<xcase_t>("random_exhaustive", gen_random_x, check_random_x, 7484.0);
    suite.add<scase_t>("splitter_random", gen_scase, check_scase, 5032.0);
    suite.add<mcase_t>("sampling", gen_mcase, check_mcase, 20000.0);
    suite.add<bcase_t>("ball", gen_bcase, check_bcase, 20000.0);
    suite.add<gcase_t>("gboost_sampler", gen_gcase, check_gcase, 10000.0);
    return suite.main(static_cast<int>(args.size()), args.data());
}
