// C14 — feature scaling is invertible; the up-scaled linear model is the same predictor
// (DESIGN.md section 5, C14).
//
// Entry points under test: scalar_stats_t::make_flatten_stats / make_targets_stats (through a generated
// dataset), scalar_stats_t::scale / upscale (2D and 4D kernels) and nano::upscale(stats..., W, b).
// Oracle: two-pass long double reference statistics of the generated columns with the missing values
// removed, the definitions of the four scaling modes, and the algebra of the affine conversion.
#include "common.h"
#include "dataset_gen.h"
#include "ml_ref.h"

#include <nano/core/numeric.h>
#include <nano/core/verif.h>
#include <nano/dataset.h>
#include <nano/dataset/iterator.h>
#include <nano/dataset/stats.h>

#include <mutex>
#include <optional>

using namespace verif;
using namespace verif::ds;
using namespace verif::mlref;
using nano::scalar_stats_t;
using nano::scaling_type;
using nano::tensor_size_t;

namespace
{
using ld = long double;

struct case_t
{
    data_spec_t         data;
    std::vector<int>    samples; // the statistics are computed over these (sorted, distinct)
    int                 batch{1000};
    std::vector<double> weights; // tsize x columns, row major
    std::vector<double> bias;    // tsize
    std::vector<double> filler;  // per column: finite raw value used in place of a missing one (affine clause)

    template <class A>
    void io(A& a)
    {
        data.io(a);
        a("samples", samples);
        a("batch", batch);
        a("weights", weights);
        a("bias", bias);
        a("filler", filler);
    }
};

// ---------------------------------------------------------------------------------------
// generator
// ---------------------------------------------------------------------------------------
constexpr int f32 = static_cast<int>(feature_type::float32);
constexpr int f64 = static_cast<int>(feature_type::float64);

// one continuous column of n values in one of the styles named by the property
// (to be called inside rc::gen::exec)
std::vector<double> pick_column(int n, int type)
{
    const auto          sn = static_cast<size_t>(n);
    std::vector<double> v(sn, 0.0);
    if (type != f32 && type != f64)
    {
        // integer storage (int16 / uint8 here): constants and ties, all values representable
        switch (*gen::range<int>(0, 2))
        {
        case 0: v.assign(sn, *gen::smallint(0, 50)); break;
        case 1: v = *rc::gen::container<std::vector<double>>(sn, gen::smallint(0, 3)); break;
        default: v = *rc::gen::container<std::vector<double>>(sn, gen::smallint(0, 100)); break;
        }
        return v;
    }
    const auto unit = [&] { return *rc::gen::container<std::vector<double>>(sn, gen::sym(1.0)); };
    switch (*rc::gen::element(0, 0, 1, 1, 2, 2, 3, 4, 5))
    {
    case 0: // regular, magnitude 1e-6 .. 1e6
    {
        const auto mag = *gen::logu(1e-6, 1e6);
        const auto u   = unit();
        for (size_t i = 0; i < sn; ++i)
        {
            v[i] = mag * u[i];
        }
        break;
    }
    case 1: // offset with a relative spread down to 1e-9 (near constant, badly conditioned variance)
    {
        const auto off = *gen::logu(1e-6, 1e6) * (*gen::chance(50) ? 1.0 : -1.0);
        const auto rel = *gen::logu(1e-9, 1.0);
        const auto u   = unit();
        for (size_t i = 0; i < sn; ++i)
        {
            v[i] = off * (1.0 + rel * u[i]);
        }
        break;
    }
    case 2: // exactly constant: representable and non-representable constants
    {
        const auto c = *rc::gen::oneOf(rc::gen::element(0.1, 3.3, 123456.789, 1e6 + 0.3, 0.0, 1.0, -2.5, 1e-6, 1.0 / 3.0, -0.7, 1e6, 999999.9, 0.3e-3),
                                       rc::gen::map(rc::gen::pair(gen::logu(1e-6, 1e6), gen::sym(1.0)),
                                                    [](const std::pair<double, double>& mu) { return mu.first * mu.second; }));
        v.assign(sn, c);
        break;
    }
    case 3: // near constant: spread below the library's epsilon floor (1e-8)
    {
        const auto c = *rc::gen::element(0.0, 0.1, 1.0, -3.3, 1e-6);
        const auto w = *gen::logu(1e-13, 4e-9);
        const auto u = unit();
        for (size_t i = 0; i < sn; ++i)
        {
            v[i] = c + w * u[i];
        }
        break;
    }
    case 4: // ties
    {
        const auto mag = *rc::gen::element(1.0, 1.0, 1e-3, 1e3);
        v              = *rc::gen::container<std::vector<double>>(sn, gen::smallint(-3, 3));
        for (auto& x : v)
        {
            x *= mag;
        }
        break;
    }
    default: // two values
    {
        const auto a = *gen::sym(10.0);
        const auto b = *gen::sym(10.0);
        const auto w = *rc::gen::container<std::vector<int>>(sn, gen::range<int>(0, 1));
        for (size_t i = 0; i < sn; ++i)
        {
            v[i] = w[i] != 0 ? a : b;
        }
        break;
    }
    }
    for (auto& x : v)
    {
        x = cast_to_storage(type, x);
    }
    return v;
}

// values of one feature, [sample * width + k]
std::vector<double> pick_values(int n, const fspec_t& s)
{
    const auto sn = static_cast<size_t>(n);
    if (s.is_sclass())
    {
        if (*gen::chance(20))
        {
            return std::vector<double>(sn, *gen::smallint(0, s.classes - 1));
        }
        return *rc::gen::container<std::vector<double>>(sn, gen::smallint(0, s.classes - 1));
    }
    if (s.is_mclass())
    {
        return *rc::gen::container<std::vector<double>>(sn * static_cast<size_t>(s.classes), gen::smallint(0, 1));
    }
    const auto          w = static_cast<size_t>(s.width());
    std::vector<double> v(sn * w, 0.0);
    for (size_t k = 0; k < w; ++k)
    {
        const auto col = pick_column(n, s.type);
        for (size_t i = 0; i < sn; ++i)
        {
            v[i * w + k] = col[i];
        }
    }
    return v;
}

fspec_t pick_continuous(bool target, bool structured)
{
    fspec_t s;
    s.type = target ? f64 : *rc::gen::element(f64, f64, f64, f64, f64, f32, f32, static_cast<int>(feature_type::int16), static_cast<int>(feature_type::uint8));
    if (structured)
    {
        const auto d = target ? *rc::gen::element(std::array<int, 3>{2, 1, 1}, std::array<int, 3>{1, 3, 1}, std::array<int, 3>{2, 2, 1},
                                                   std::array<int, 3>{5, 1, 1}, std::array<int, 3>{1, 1, 3})
                              : *rc::gen::element(std::array<int, 3>{2, 1, 1}, std::array<int, 3>{1, 3, 1}, std::array<int, 3>{2, 2, 1},
                                                   std::array<int, 3>{1, 1, 2}, std::array<int, 3>{2, 1, 3});
        s.d0         = d[0];
        s.d1         = d[1];
        s.d2         = d[2];
    }
    return s;
}

fspec_t pick_categorical(bool single, int max_classes)
{
    fspec_t s;
    s.type    = static_cast<int>(single ? feature_type::sclass : feature_type::mclass);
    s.classes = *gen::range<int>(1, max_classes);
    return s;
}

int columns_of(const fspec_t& s)
{
    return s.is_sclass() ? s.classes - 1 : s.width();
}

rc::Gen<case_t> gen_case()
{
    return rc::gen::exec(
        []
        {
            case_t     c;
            const auto n = *rc::gen::oneOf(gen::range<int>(1, 12), gen::range<int>(1, 300), rc::gen::element(1, 2, 3, 7, 100, 300));

            // input features: up to 20 flatten columns
            const auto           budget = *gen::range<int>(1, 20);
            std::vector<fspec_t> specs;
            int                  cols = 0;
            for (int trial = 0; trial < 40 && cols < budget; ++trial)
            {
                fspec_t s;
                switch (*rc::gen::element(0, 0, 0, 0, 0, 1, 2, 3))
                {
                case 0: s = pick_continuous(false, false); break;
                case 1: s = pick_continuous(false, true); break;
                case 2: s = pick_categorical(true, 4); break;
                default: s = pick_categorical(false, 3); break;
                }
                if (cols + columns_of(s) > 20)
                {
                    s = pick_continuous(false, false);
                }
                cols += columns_of(s);
                specs.push_back(s);
            }
            if (cols == 0)
            {
                specs.push_back(pick_continuous(false, false));
            }

            // the target: 1..5 components
            fspec_t t;
            switch (*rc::gen::element(0, 0, 0, 1, 1, 2, 3))
            {
            case 0: t = pick_continuous(true, false); break;
            case 1: t = pick_continuous(true, true); break;
            case 2: t = pick_categorical(true, 5); break;
            default: t = pick_categorical(false, 5); break;
            }
            const auto tpos = *gen::range<int>(0, static_cast<int>(specs.size()));
            specs.insert(specs.begin() + tpos, t);

            auto& d   = c.data;
            d.samples = n;
            d.target  = tpos;
            for (int f = 0; f < static_cast<int>(specs.size()); ++f)
            {
                const auto& s = specs[static_cast<size_t>(f)];
                d.types.push_back(s.type);
                d.dims.push_back(s.d0);
                d.dims.push_back(s.d1);
                d.dims.push_back(s.d2);
                d.classes.push_back(s.classes);
                d.values.push_back(pick_values(n, s));
                d.mask.push_back(f == tpos ? std::vector<int>(static_cast<size_t>(n), 1) : *gen_mask(n, *rc::gen::element(0, 0, 0, 1, 1, 1, 2, 3, 4, 5)));
            }

            c.samples = *gen_subset(n);
            c.batch   = *rc::gen::element(1, 2, 7, 1000, 1000, 1000, n, std::max(1, n - 1), n + 1, 10000);

            const auto layout = make_layout(d);
            const auto wmag   = *rc::gen::element(1.0, 1.0, 1e-3, 1e3);
            c.weights         = *gen::vec(static_cast<size_t>(layout.tsize) * static_cast<size_t>(layout.ncols()), wmag);
            c.bias            = *gen::vec(static_cast<size_t>(layout.tsize), *rc::gen::element(1.0, 1.0, 1e-3, 1e3, 1e6));
            c.filler          = *rc::gen::container<std::vector<double>>(static_cast<size_t>(layout.ncols()),
                                                                         rc::gen::oneOf(rc::gen::just(0.0), gen::sym(1.0), gen::sym(10.0), gen::sym(1e6)));
            return c;
        });
}

// ---------------------------------------------------------------------------------------
// reference statistics (two passes, long double, missing values removed)
// ---------------------------------------------------------------------------------------
struct ref_t
{
    long N{0};
    ld   min{0}, max{0}, mean{0}, var{0}; // var: sample variance (N-1), 0 for N < 2
    ld   sumsq{0}, meanabs{0};

    ld range() const { return max - min; }
};

ref_t reference(const std::vector<double>& column)
{
    ref_t r;
    ld    sum = 0;
    for (const auto x : column)
    {
        if (std::isfinite(x))
        {
            r.min = r.N == 0 ? static_cast<ld>(x) : std::min(r.min, static_cast<ld>(x));
            r.max = r.N == 0 ? static_cast<ld>(x) : std::max(r.max, static_cast<ld>(x));
            ++r.N;
            sum += x;
            r.sumsq += static_cast<ld>(x) * x;
            r.meanabs += std::fabs(static_cast<ld>(x));
        }
    }
    if (r.N > 0)
    {
        r.mean = sum / static_cast<ld>(r.N);
        r.meanabs /= static_cast<ld>(r.N);
    }
    if (r.N > 1)
    {
        ld ss = 0;
        for (const auto x : column)
        {
            if (std::isfinite(x))
            {
                ss += (x - r.mean) * (x - r.mean);
            }
        }
        r.var = ss / static_cast<ld>(r.N - 1);
    }
    return r;
}

// comparison with a tolerance band: beyond 10x the tolerance -> violation, inside (tol, 10 tol] -> borderline
// (signature and message are only built on failure: JUDGE evaluates them lazily)
struct judge_t
{
    ctx_t&                                      ctx;
    bool                                        borderline{false};
    std::optional<verdict_t>                    fail;
    std::vector<std::pair<const char*, double>> maxima; // keyed by string literal

    void note(const char* key, double ratio)
    {
        for (auto& kv : maxima)
        {
            if (kv.first == key)
            {
                kv.second = std::max(kv.second, ratio);
                return;
            }
        }
        maxima.emplace_back(key, ratio);
    }

    void flush()
    {
        for (const auto& kv : maxima)
        {
            ctx.maximum(kv.first, kv.second);
        }
    }

    template <class tsig, class tmsg>
    bool test(const char* key, ld err, ld tol, const tsig& sig, const tmsg& msg)
    {
        if (!(tol > 0))
        {
            tol = std::numeric_limits<double>::min();
        }
        if (std::isfinite(static_cast<double>(err)))
        {
            note(key, static_cast<double>(err / tol));
        }
        if (!(err <= 10 * tol)) // also catches NaN
        {
            if (!fail)
            {
                fail = verdict_t::violation(sig(), cat(msg(), " err=", static_cast<double>(err), " tol=", static_cast<double>(tol)));
            }
            return false;
        }
        if (!(err <= tol))
        {
            borderline = true;
        }
        return true;
    }
};

#define JUDGE(key, err, tol, sig, msg) judge.test(key, err, tol, [&] { return std::string(sig); }, [&] { return std::string(msg); })

const char* mode_name(int mode)
{
    static const char* names[] = {"none", "mean", "minmax", "standard"};
    return names[mode];
}

bool all_finite(const nano::tensor1d_t& t)
{
    for (tensor_size_t i = 0; i < t.size(); ++i)
    {
        if (!std::isfinite(t(i)))
        {
            return false;
        }
    }
    return true;
}

// one side (flatten inputs or targets) of the data: column-major copies and what the statistics have to describe
struct side_t
{
    const char*                      name{""};
    int                              rows{0};
    std::vector<std::vector<double>> all;      // [column][sample] every sample of the dataset (NaN = missing)
    std::vector<std::vector<double>> selected; // [column][i] the samples the statistics are computed from
    std::vector<bool>                categorical;
    std::vector<ref_t>               ref;

    int ncols() const { return static_cast<int>(all.size()); }
};

struct degeneracy_t
{
    bool constant{false}, single{false}, all_missing{false}, regular{false}, below_floor{false}, ill_conditioned{false};
};

// clause (v) first: every statistic is finite (F3: NaN deviation of constant columns)
std::optional<verdict_t> check_finite(const side_t& side, const scalar_stats_t& st)
{
    if (st.m_min.size() != side.ncols() || st.m_samples.size() != side.ncols())
    {
        return verdict_t::violation(cat("C14/stats/", side.name, "/shape"), cat("statistics of ", st.m_min.size(), " columns, expected ", side.ncols()));
    }
    if (!all_finite(st.m_stdev) || !all_finite(st.m_div_stdev) || !all_finite(st.m_mul_stdev))
    {
        for (tensor_size_t j = 0; j < st.m_stdev.size(); ++j)
        {
            if (!std::isfinite(st.m_stdev(j)) || !std::isfinite(st.m_div_stdev(j)) || !std::isfinite(st.m_mul_stdev(j)))
            {
                const auto& r = side.ref[static_cast<size_t>(j)];
                return verdict_t::violation("C14/stats/non-finite-deviation",
                                            cat(side.name, " column ", j, ": stdev=", st.m_stdev(j), " div_stdev=", st.m_div_stdev(j), " mul_stdev=", st.m_mul_stdev(j),
                                                " for N=", r.N, " values in [", static_cast<double>(r.min), ",", static_cast<double>(r.max),
                                                "] with true deviation ", static_cast<double>(std::sqrt(r.var))));
            }
        }
    }
    if (!all_finite(st.m_min) || !all_finite(st.m_max) || !all_finite(st.m_mean) || !all_finite(st.m_div_range) || !all_finite(st.m_mul_range))
    {
        return verdict_t::violation("C14/stats/non-finite", cat(side.name, ": a minimum / maximum / mean / range denominator is not finite"));
    }
    return std::nullopt;
}

// clause (iv), second half: the statistics are those of the column with the missing values removed
void check_statistics(const side_t& side, const scalar_stats_t& st, judge_t& judge)
{
    for (int j = 0; j < side.ncols() && !judge.fail; ++j)
    {
        if (side.categorical[static_cast<size_t>(j)])
        {
            continue; // scaling disabled: the statistics are placeholders, the scaling clauses below cover them
        }
        const auto& r = side.ref[static_cast<size_t>(j)];
        if (st.m_samples(j) != r.N)
        {
            judge.fail = verdict_t::violation(cat("C14/stats/", side.name, "/count"), cat("column ", j, ": ", st.m_samples(j), " samples counted, ", r.N, " present"));
            return;
        }
        if (r.N < 1)
        {
            continue;
        }
        if (static_cast<ld>(st.m_min(j)) != r.min || static_cast<ld>(st.m_max(j)) != r.max)
        {
            judge.fail = verdict_t::violation(cat("C14/stats/", side.name, "/min-max"),
                                              cat("column ", j, ": [", st.m_min(j), ",", st.m_max(j), "] expected [", static_cast<double>(r.min), ",", static_cast<double>(r.max), "]"));
            return;
        }
        JUDGE("stats/mean", std::fabs(st.m_mean(j) - r.mean), 1e3 * eps * r.meanabs, cat("C14/stats/", side.name, "/mean"),
              cat("column ", j, ": mean ", st.m_mean(j), " expected ", static_cast<double>(r.mean)));
        if (r.N >= 2)
        {
            // one-pass variance: error <= 3 N eps sum(x^2) / (N-1), N <= 300
            const ld tol_var = 1e3 * eps * r.sumsq / static_cast<ld>(r.N - 1);
            JUDGE("stats/variance", std::fabs(static_cast<ld>(st.m_stdev(j)) * st.m_stdev(j) - r.var), tol_var + 8 * eps * r.var,
                  cat("C14/stats/", side.name, "/deviation"), cat("column ", j, ": stdev ", st.m_stdev(j), " expected ", static_cast<double>(std::sqrt(r.var))));
        }
    }
}

// clauses (i)-(iv) for one scaling mode; `scale` / `upscale` wrap the library kernels (2D or 4D)
template <class tscale, class tupscale>
void check_mode(const side_t& side, const scalar_stats_t& st, int mode, const std::vector<int>& samples, const tscale& scale, const tupscale& upscale,
                judge_t& judge, degeneracy_t& deg)
{
    const auto floor = static_cast<ld>(nano::epsilon2<nano::scalar_t>());
    const auto n     = side.rows;
    const auto ncols = side.ncols();
    const auto where = cat("C14/", side.name, "/", mode_name(mode));

    // row-major copy of the raw values -> library scaling -> library up-scaling
    std::vector<double> raw(static_cast<size_t>(n) * static_cast<size_t>(ncols));
    for (int i = 0; i < n; ++i)
    {
        for (int j = 0; j < ncols; ++j)
        {
            raw[static_cast<size_t>(i) * static_cast<size_t>(ncols) + static_cast<size_t>(j)] = side.all[static_cast<size_t>(j)][static_cast<size_t>(i)];
        }
    }
    auto scaled = raw;
    scale(scaled);
    auto restored = scaled;
    upscale(restored);

    const auto at = [&](const std::vector<double>& m, int i, int j) { return m[static_cast<size_t>(i) * static_cast<size_t>(ncols) + static_cast<size_t>(j)]; };

    for (int j = 0; j < ncols && !judge.fail; ++j)
    {
        const auto& r    = side.ref[static_cast<size_t>(j)];
        const bool  cat_ = side.categorical[static_cast<size_t>(j)];
        for (int i = 0; i < n; ++i)
        {
            const auto x = at(raw, i, j);
            const auto z = at(scaled, i, j);
            const auto u = at(restored, i, j);
            if (!std::isfinite(z))
            {
                judge.fail = verdict_t::violation(cat(where, "/scaled-non-finite"), cat("column ", j, " sample ", i, ": ", x, " -> ", z));
                return;
            }
            if (!std::isfinite(x))
            {
                // (iv) missing values become zero
                if (z != 0.0)
                {
                    judge.fail = verdict_t::violation(cat(where, "/missing-not-zero"), cat("column ", j, " sample ", i, ": missing -> ", z));
                    return;
                }
                continue;
            }
            // (iii) categorical columns are never rescaled
            if (cat_ && z != x)
            {
                judge.fail = verdict_t::violation(cat(where, "/categorical-rescaled"), cat("column ", j, " sample ", i, ": ", x, " -> ", z));
                return;
            }
            // (i) scaling followed by up-scaling returns the original finite values
            const ld tol = 1e3 * eps * (std::fabs(static_cast<ld>(x)) + std::fabs(static_cast<ld>(st.m_mean(j))) + std::fabs(static_cast<ld>(st.m_min(j))));
            if (!JUDGE("roundtrip", std::fabs(static_cast<ld>(u) - x), tol, cat(where, "/roundtrip"),
                       cat("column ", j, " sample ", i, ": ", x, " -> ", z, " -> ", u, " (N=", r.N, " mean=", st.m_mean(j), " min=", st.m_min(j), ")")))
            {
                return;
            }
        }
        if (cat_ || mode == 0 || r.N < 1)
        {
            continue;
        }

        // (ii) the advertised range / mean / deviation over the samples the statistics were computed from
        ld   zmin = 0, zmax = 0, zsum = 0, zabs = 0;
        long zn = 0;
        for (const auto i : samples)
        {
            if (std::isfinite(at(raw, i, j)))
            {
                const ld z = at(scaled, i, j);
                zmin       = zn == 0 ? z : std::min(zmin, z);
                zmax       = zn == 0 ? z : std::max(zmax, z);
                zsum += z;
                zabs += std::fabs(z);
                ++zn;
            }
        }
        const ld   zmean    = zsum / static_cast<ld>(zn);
        const bool regular  = r.N >= 2 && r.range() > floor * (1 + 1e-6L);
        const auto describe = [&] { return cat("column ", j, ": N=", r.N, " values in [", static_cast<double>(r.min), ",", static_cast<double>(r.max), "]"); };

        if (mode == 2)
        {
            if (!JUDGE("minmax/inside", std::max(-zmin, zmax - 1), 1e-12L, cat(where, "/outside-unit-interval"),
                       cat(describe(), " scaled into [", static_cast<double>(zmin), ",", static_cast<double>(zmax), "]")))
            {
                return;
            }
            if (regular && !JUDGE("minmax/extremes", std::max(std::fabs(zmin), std::fabs(zmax - 1)), 1e-12L, cat(where, "/extremes"),
                                  cat(describe(), " scaled into [", static_cast<double>(zmin), ",", static_cast<double>(zmax), "] instead of [0,1]")))
            {
                return;
            }
        }
        else
        {
            // zero mean: |mean z| <= N eps mean|x| d + rounding of the scaled values
            const ld d   = mode == 1 ? st.m_div_range(j) : st.m_div_stdev(j);
            const ld tol = 1e3 * eps * ((r.meanabs + std::fabs(r.mean)) * std::fabs(d) + zabs / static_cast<ld>(zn));
            if (!JUDGE("centre", std::fabs(zmean), tol, cat(where, "/centre"), cat(describe(), " scaled mean ", static_cast<double>(zmean))))
            {
                return;
            }
            if (mode == 1 && regular &&
                !JUDGE("mean/range", std::fabs((zmax - zmin) - 1), 1e-12L, cat(where, "/range"), cat(describe(), " scaled range ", static_cast<double>(zmax - zmin))))
            {
                return;
            }
            if (mode == 3 && r.N >= 2 && std::sqrt(r.var) > floor * (1 + 1e-6L))
            {
                // conditioning of the one-pass variance: relative error of the library's variance <= kappa
                const ld tol_var = 1e3 * eps * r.sumsq / static_cast<ld>(r.N - 1);
                const ld kappa   = tol_var / r.var;
                if (kappa < 0.1L)
                {
                    ld ss = 0;
                    for (const auto i : samples)
                    {
                        if (std::isfinite(at(raw, i, j)))
                        {
                            const ld z = at(scaled, i, j);
                            ss += (z - zmean) * (z - zmean);
                        }
                    }
                    const ld zvar = ss / static_cast<ld>(zn - 1);
                    if (!JUDGE("standard/deviation", std::fabs(zvar - 1), 2 * kappa + 1e-9L, cat(where, "/deviation"),
                               cat(describe(), " scaled sample variance ", static_cast<double>(zvar), " (library stdev ", st.m_stdev(j), ", reference ",
                                   static_cast<double>(std::sqrt(r.var)), ")")))
                    {
                        return;
                    }
                }
                else
                {
                    deg.ill_conditioned = true;
                }
            }
        }
    }
}

void classify(const side_t& side, degeneracy_t& deg)
{
    const auto floor = static_cast<ld>(nano::epsilon2<nano::scalar_t>());
    for (int j = 0; j < side.ncols(); ++j)
    {
        if (side.categorical[static_cast<size_t>(j)])
        {
            continue;
        }
        const auto& r = side.ref[static_cast<size_t>(j)];
        if (r.N == 0)
        {
            deg.all_missing = true;
        }
        else if (r.N == 1)
        {
            deg.single = true;
        }
        else if (r.range() == 0)
        {
            deg.constant = true;
        }
        else if (r.range() <= floor)
        {
            deg.below_floor = true;
        }
        else
        {
            deg.regular = true;
        }
    }
}

// ---------------------------------------------------------------------------------------
// the check
// ---------------------------------------------------------------------------------------
verdict_t check_impl(const case_t& c, ctx_t& ctx)
{
    const auto& d      = c.data;
    const auto  layout = make_layout(d);
    const auto  ncols  = layout.ncols();
    const auto  tsize  = layout.tsize;
    const auto  n      = d.samples;

    const auto source  = make_datasource(d);
    auto       dataset = nano::dataset_t{*source, 1U};
    add_generators(dataset);
    if (dataset.samples() != n || dataset.columns() != ncols || nano::size(dataset.target_dims()) != tsize)
    {
        return verdict_t::violation("C14/harness/layout", cat("columns=", dataset.columns(), " expected ", ncols, ", targets=", nano::size(dataset.target_dims()), " expected ", tsize));
    }

    // the raw data as the library reports it; it has to be what was generated (C08's property: here it only
    // guarantees that the reference statistics describe the data the library saw)
    const auto       all_samples = nano::arange(0, n);
    nano::tensor2d_t fbuffer;
    nano::tensor4d_t tbuffer;
    const auto       flatten = dataset.flatten(all_samples, fbuffer);
    const auto       targets = dataset.targets(all_samples, tbuffer);

    side_t inputs, outputs;
    inputs.name  = "flatten";
    outputs.name = "targets";
    inputs.rows = outputs.rows = n;
    for (int j = 0; j < ncols; ++j)
    {
        std::vector<double> column(static_cast<size_t>(n));
        for (int i = 0; i < n; ++i)
        {
            column[static_cast<size_t>(i)] = raw_input(d, layout.cols[static_cast<size_t>(j)], i);
            if (!same_value(column[static_cast<size_t>(i)], flatten(i, j)))
            {
                return verdict_t::violation("C14/harness/raw-data-mismatch", cat("flatten(", i, ",", j, ")=", flatten(i, j), " generated ", column[static_cast<size_t>(i)]));
            }
        }
        inputs.all.push_back(column);
        inputs.categorical.push_back(layout.cols[static_cast<size_t>(j)].categorical);
    }
    for (int k = 0; k < tsize; ++k)
    {
        std::vector<double> column(static_cast<size_t>(n));
        for (int i = 0; i < n; ++i)
        {
            column[static_cast<size_t>(i)] = raw_target(d, i, k);
            if (!same_value(column[static_cast<size_t>(i)], targets.tensor(i)(k)))
            {
                return verdict_t::violation("C14/harness/raw-data-mismatch", cat("targets(", i, ",", k, ")=", targets.tensor(i)(k), " generated ", column[static_cast<size_t>(i)]));
            }
        }
        outputs.all.push_back(column);
        outputs.categorical.push_back(layout.target_categorical);
    }
    for (auto* side : {&inputs, &outputs})
    {
        for (const auto& column : side->all)
        {
            std::vector<double> sel;
            for (const auto i : c.samples)
            {
                sel.push_back(column[static_cast<size_t>(i)]);
            }
            side->ref.push_back(reference(sel));
            side->selected.push_back(std::move(sel));
        }
    }

    // -- the statistics (entry points: make_flatten_stats / make_targets_stats) ------------------
    const auto samples = to_indices(c.samples);
    const auto fstats  = scalar_stats_t::make_flatten_stats(dataset, samples, c.batch);
    const auto tstats  = scalar_stats_t::make_targets_stats(dataset, samples, c.batch);

    for (const auto& [side, st] : {std::make_pair(&inputs, &fstats), std::make_pair(&outputs, &tstats)})
    {
        if (auto v = check_finite(*side, *st))
        {
            return *v;
        }
    }

    judge_t      judge{ctx, false, std::nullopt, {}};
    degeneracy_t deg;
    classify(inputs, deg);
    classify(outputs, deg);

    check_statistics(inputs, fstats, judge);
    if (!judge.fail)
    {
        check_statistics(outputs, tstats, judge);
    }

    // -- scaling / up-scaling, all four modes, both kernels ---------------------------------------
    for (int mode = 0; mode < 4 && !judge.fail; ++mode)
    {
        const auto type = static_cast<scaling_type>(mode);
        check_mode(
            inputs, fstats, mode, c.samples, [&](std::vector<double>& m) { fstats.scale(type, nano::map_tensor(m.data(), n, ncols)); },
            [&](std::vector<double>& m) { fstats.upscale(type, nano::map_tensor(m.data(), n, ncols)); }, judge, deg);
        if (judge.fail)
        {
            break;
        }
        // the same inputs (with their missing values) through the 4D kernels, one column per plane
        check_mode(
            inputs, fstats, mode, c.samples,
            [&](std::vector<double>& m) { fstats.scale(type, nano::map_tensor(m.data(), static_cast<tensor_size_t>(n), static_cast<tensor_size_t>(ncols), tensor_size_t{1}, tensor_size_t{1})); },
            [&](std::vector<double>& m) { fstats.upscale(type, nano::map_tensor(m.data(), static_cast<tensor_size_t>(n), static_cast<tensor_size_t>(ncols), tensor_size_t{1}, tensor_size_t{1})); },
            judge, deg);
        if (judge.fail)
        {
            break;
        }
        const auto tdims = dataset.target_dims();
        check_mode(
            outputs, tstats, mode, c.samples, [&](std::vector<double>& m) { tstats.scale(type, nano::map_tensor(m.data(), nano::cat_dims(static_cast<tensor_size_t>(n), tdims))); },
            [&](std::vector<double>& m) { tstats.upscale(type, nano::map_tensor(m.data(), nano::cat_dims(static_cast<tensor_size_t>(n), tdims))); }, judge, deg);
    }

    // -- the dataset iterators deliver exactly what the kernels compute from the raw values ---------
    // (flatten_iterator_t / targets_iterator_t apply the scaling on the fly or when caching; cached and uncached, every mode)
    for (int mode = 0; mode < 4 && !judge.fail; ++mode)
    {
        const auto type = static_cast<scaling_type>(mode);
        for (int cached = 0; cached < 2 && !judge.fail; ++cached)
        {
            auto fit = nano::flatten_iterator_t{dataset, samples};
            fit.batch(c.batch);
            fit.scaling(type);
            auto tit = nano::targets_iterator_t{dataset, samples};
            tit.batch(c.batch);
            tit.scaling(type);
            if (cached != 0)
            {
                (void)fit.cache_flatten(std::numeric_limits<tensor_size_t>::max());
                (void)fit.cache_targets(std::numeric_limits<tensor_size_t>::max());
                (void)tit.cache_targets(std::numeric_limits<tensor_size_t>::max());
            }
            std::mutex  mutex;
            std::string first;
            const auto  report = [&](std::string what)
            {
                const std::scoped_lock lock(mutex);
                if (first.empty())
                {
                    first = std::move(what);
                }
            };
            const auto same = [](double a, double b) { return a == b || (std::isnan(a) && std::isnan(b)); };
            const auto check_inputs = [&](const nano::tensor_range_t& range, const nano::tensor2d_cmap_t& got, const scalar_stats_t& st)
            {
                nano::tensor2d_t expected(range.size(), static_cast<tensor_size_t>(ncols));
                for (tensor_size_t r = 0; r < range.size(); ++r)
                {
                    for (int j = 0; j < ncols; ++j)
                    {
                        expected(r, j) = inputs.all[static_cast<size_t>(j)][static_cast<size_t>(c.samples[static_cast<size_t>(range.begin() + r)])];
                    }
                }
                st.scale(type, expected.tensor());
                for (tensor_size_t k = 0; k < expected.size(); ++k)
                {
                    if (got.size() != expected.size() || !same(got.data()[k], expected.data()[k]))
                    {
                        report(cat("flatten element ", k, " of the batch starting at ", range.begin(), ": iterator ", got.size() == expected.size() ? got.data()[k] : 0.0,
                                   " kernel ", expected.data()[k]));
                        return;
                    }
                }
            };
            const auto check_targets = [&](const nano::tensor_range_t& range, const nano::tensor4d_cmap_t& got, const scalar_stats_t& st)
            {
                nano::tensor4d_t expected(nano::cat_dims(range.size(), dataset.target_dims()));
                for (tensor_size_t r = 0; r < range.size(); ++r)
                {
                    for (int k = 0; k < tsize; ++k)
                    {
                        expected.tensor(r)(k) = outputs.all[static_cast<size_t>(k)][static_cast<size_t>(c.samples[static_cast<size_t>(range.begin() + r)])];
                    }
                }
                st.scale(type, expected.tensor());
                for (tensor_size_t k = 0; k < expected.size(); ++k)
                {
                    if (got.size() != expected.size() || !same(got.data()[k], expected.data()[k]))
                    {
                        report(cat("targets element ", k, " of the batch starting at ", range.begin(), ": iterator ", got.size() == expected.size() ? got.data()[k] : 0.0,
                                   " kernel ", expected.data()[k]));
                        return;
                    }
                }
            };
            fit.loop([&](nano::tensor_range_t range, size_t, nano::tensor2d_cmap_t flat, nano::tensor4d_cmap_t targ)
                     {
                         check_inputs(range, flat, fit.flatten_stats());
                         check_targets(range, targ, fit.targets_stats());
                     });
            tit.loop([&](nano::tensor_range_t range, size_t, nano::tensor4d_cmap_t targ) { check_targets(range, targ, tit.targets_stats()); });
            if (!first.empty())
            {
                judge.fail = verdict_t::violation(cat("C14/iterator/", cached != 0 ? "cached" : "uncached", "/differs-from-the-kernel"),
                                                  cat("scaling mode ", mode, ": ", first));
            }
        }
    }

    // -- (vi) the affine conversion of weights and bias, all 16 pairs of modes --------------------
    if (!judge.fail)
    {
        // raw finite inputs: data rows with the missing values replaced, and the filler row itself
        std::vector<std::vector<double>> rows;
        const auto                       add_row = [&](int i)
        {
            std::vector<double> x(static_cast<size_t>(ncols));
            for (int j = 0; j < ncols; ++j)
            {
                const auto v              = i < 0 ? qnan : inputs.all[static_cast<size_t>(j)][static_cast<size_t>(i)];
                x[static_cast<size_t>(j)] = std::isfinite(v) ? v : c.filler[static_cast<size_t>(j)];
            }
            rows.push_back(x);
        };
        add_row(-1);
        for (int i = 0; i < std::min(n, 4); ++i)
        {
            add_row(i);
        }
        if (n > 4)
        {
            add_row(n - 1);
            add_row(c.samples.back());
            add_row(c.samples[c.samples.size() / 2]);
        }

        const auto W = [&](int k, int j) { return c.weights[static_cast<size_t>(k) * static_cast<size_t>(ncols) + static_cast<size_t>(j)]; };
        // (offset, divisor) of a mode, as the library statistics define them
        const auto offset = [](const scalar_stats_t& st, int mode, int j) -> ld { return mode == 0 ? 0.0 : mode == 2 ? st.m_min(j) : st.m_mean(j); };
        const auto divide = [](const scalar_stats_t& st, int mode, int j) -> ld { return mode == 0 ? 1.0 : mode == 3 ? st.m_div_stdev(j) : st.m_div_range(j); };
        const auto multip = [](const scalar_stats_t& st, int mode, int j) -> ld { return mode == 0 ? 1.0 : mode == 3 ? st.m_mul_stdev(j) : st.m_mul_range(j); };

        for (int fmode = 0; fmode < 4 && !judge.fail; ++fmode)
        {
            for (int tmode = 0; tmode < 4 && !judge.fail; ++tmode)
            {
                nano::tensor2d_t weights(tsize, ncols);
                nano::tensor1d_t bias(tsize);
                for (int k = 0; k < tsize; ++k)
                {
                    bias(k) = c.bias[static_cast<size_t>(k)];
                    for (int j = 0; j < ncols; ++j)
                    {
                        weights(k, j) = W(k, j);
                    }
                }
                nano::upscale(fstats, static_cast<scaling_type>(fmode), tstats, static_cast<scaling_type>(tmode), weights, bias);
                const auto where = cat("C14/affine/", mode_name(fmode), "-", mode_name(tmode));

                for (const auto& x : rows)
                {
                    // the original model on the scaled inputs, prediction up-scaled
                    auto z = x;
                    fstats.scale(static_cast<scaling_type>(fmode), nano::map_tensor(z.data(), 1, ncols));
                    std::vector<double> y(static_cast<size_t>(tsize));
                    for (int k = 0; k < tsize; ++k)
                    {
                        ld acc = c.bias[static_cast<size_t>(k)];
                        for (int j = 0; j < ncols; ++j)
                        {
                            acc += static_cast<ld>(W(k, j)) * z[static_cast<size_t>(j)];
                        }
                        y[static_cast<size_t>(k)] = static_cast<double>(acc);
                    }
                    tstats.upscale(static_cast<scaling_type>(tmode), nano::map_tensor(y.data(), 1, tsize));

                    for (int k = 0; k < tsize && !judge.fail; ++k)
                    {
                        // the converted model on the raw inputs
                        ld       acc   = bias(k);
                        const ld tm    = std::fabs(multip(tstats, tmode, k));
                        ld       terms = std::fabs(static_cast<ld>(c.bias[static_cast<size_t>(k)])) * tm + std::fabs(offset(tstats, tmode, k));
                        for (int j = 0; j < ncols; ++j)
                        {
                            acc += static_cast<ld>(weights(k, j)) * x[static_cast<size_t>(j)];
                            terms += std::fabs(static_cast<ld>(W(k, j))) * std::fabs(divide(fstats, fmode, j)) *
                                     (std::fabs(static_cast<ld>(x[static_cast<size_t>(j)])) + std::fabs(offset(fstats, fmode, j))) * tm;
                        }
                        if (!std::isfinite(static_cast<double>(acc)) || !std::isfinite(y[static_cast<size_t>(k)]))
                        {
                            judge.fail = verdict_t::violation(cat(where, "/non-finite"), cat("output ", k, ": converted model ", static_cast<double>(acc), ", up-scaled prediction ", y[static_cast<size_t>(k)]));
                            break;
                        }
                        JUDGE("affine", std::fabs(acc - y[static_cast<size_t>(k)]), 1e3 * eps * terms, cat(where, "/mismatch"),
                              cat("output ", k, ": converted model on raw inputs ", static_cast<double>(acc), ", up-scaled prediction on scaled inputs ", y[static_cast<size_t>(k)],
                                  ", summed magnitudes ", static_cast<double>(terms)));
                    }
                    if (judge.fail)
                    {
                        break;
                    }
                }
            }
        }
    }

    // -- classes, non-triviality --------------------------------------------------------------------
    const bool any_missing = [&]
    {
        for (const auto& m : d.mask)
        {
            for (const auto g : m)
            {
                if (g == 0)
                {
                    return true;
                }
            }
        }
        return false;
    }();
    const bool any_categorical = std::find(inputs.categorical.begin(), inputs.categorical.end(), true) != inputs.categorical.end();
    ctx.label_if(deg.constant, "constant-column");
    ctx.label_if(deg.single, "single-sample-column");
    ctx.label_if(deg.all_missing, "all-missing-column");
    ctx.label_if(deg.below_floor, "near-constant-below-floor");
    ctx.label_if(deg.ill_conditioned, "ill-conditioned-variance");
    ctx.label_if(deg.regular, "regular-column");
    ctx.label_if(any_missing, "missing-values");
    ctx.label_if(any_categorical, "categorical-input-columns");
    ctx.label_if(layout.target_categorical, "categorical-target");
    ctx.label_if(!layout.target_categorical, "continuous-target");
    ctx.label_if(n == 1, "one-row");
    ctx.label_if(static_cast<int>(c.samples.size()) < n, "statistics-on-subset");
    ctx.label_if(c.samples.size() == 1, "statistics-on-one-sample");
    ctx.label_if(c.batch < static_cast<int>(c.samples.size()), "several-batches");
    ctx.nontrivial = (deg.constant || deg.single || deg.all_missing) && deg.regular;

    judge.flush();
    if (judge.fail)
    {
        return *judge.fail;
    }
    if (judge.borderline)
    {
        return verdict_t::borderline("tolerance-band");
    }
    return verdict_t::ok();
}

verdict_t check_case(const case_t& c, ctx_t& ctx)
{
    const auto& d = c.data;
    if (!d.valid() || d.target < 0 || !valid_subset(c.samples, d.samples) || c.batch < 1)
    {
        return verdict_t::discard("malformed-case");
    }
    const auto layout = make_layout(d);
    if (layout.ncols() < 1 || layout.tsize < 1 || c.filler.size() != static_cast<size_t>(layout.ncols()) || c.bias.size() != static_cast<size_t>(layout.tsize) ||
        c.weights.size() != static_cast<size_t>(layout.ncols()) * static_cast<size_t>(layout.tsize))
    {
        return verdict_t::discard("malformed-case");
    }
    for (const auto* v : {&c.weights, &c.bias, &c.filler})
    {
        for (const auto x : *v)
        {
            if (!std::isfinite(x))
            {
                return verdict_t::discard("malformed-case");
            }
        }
    }
    nano::verif::rng_state().store(0x14ULL * 2 + 1);
    try
    {
        return check_impl(c, ctx);
    }
    catch (const std::exception& e)
    {
        return verdict_t::violation("C14/exception", e.what());
    }
}
} // namespace

int main(int argc, char** argv)
{
    suite_t suite("C14");
    suite.add<case_t>("scaling", gen_case, check_case, 1.0);
    return suite.main(argc, argv);
}
