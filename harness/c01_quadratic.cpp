// C01 — L-BFGS/BFGS solve well-conditioned quadratics, truthfully (DESIGN.md section 5, C01).
//
// sub-check "solve"    (part A): lbfgs/bfgs at epsilon=1e-8 on generated strongly convex quadratics
//                      (kappa <= 1e3, s in [1e-3,1e3], n <= 16, |x0|_inf <= 10) return `converged` within
//                      1500 function+gradient evaluations (counted by the harness' own function object) and
//                      ||x-x*||_2 <= sqrt(n)*eps*max(1,|f(x)|)/lambda_min (x*, f, lambda_min known by construction).
// sub-check "truthful" (part B): all 17 line-search solvers x 4 lsearch0 x 5 lsearchk x (c1,c2) x epsilon x
//                      max_evals on generated quadratics and on every registered smooth function:
//                      status == converged  =>  max|grad f(x)|/max(1,|f(x)|) < epsilon, with f and grad f
//                      re-evaluated on a second, freshly constructed instance of the function.
#include "c01_quadratic_model.h"
#include "common.h"

#include <nano/core/verif.h>
#include <nano/function.h>
#include <nano/solver.h>

#include <optional>

using namespace verif;
using namespace verif::quadratic;

namespace
{
// ---- the truthfulness oracle (both sub-checks) ----------------------------------------------------------
// `fresh` is an instance of the objective the solver never saw. Returns the recomputed criterion.
verdict_t check_truthful_state(const nano::function_t& fresh, const nano::solver_state_t& state, double epsilon,
                               const std::string& where, ctx_t& ctx)
{
    if (state.x().size() != fresh.size())
    {
        return verdict_t::violation("C01/" + where + "/converged-with-wrong-dimension", cat("size=", state.x().size()));
    }
    nano::vector_t x(state.x());
    nano::vector_t g(fresh.size());
    const auto     f    = fresh.vgrad(x, g);
    const auto     gmax = g.lpNorm<Eigen::Infinity>();
    const auto     test = gmax / std::max(1.0, std::fabs(f));
    ctx.maximum(where + ":criterion/epsilon", test / epsilon);

    // is the re-evaluation bit-identical to what the state stores? (informative, and decides the band below)
    bool identical = state.fx() == f && state.gx().size() == g.size();
    for (nano::tensor_size_t i = 0; identical && i < g.size(); ++i)
    {
        identical = state.gx()(i) == g(i);
    }
    ctx.label_if(!identical, "re-evaluation-differs-from-stored-state");

    if (test < epsilon)
    {
        return verdict_t::ok();
    }
    const auto msg = cat("recomputed max|g|=", gmax, " f=", f, " criterion=", test, " epsilon=", epsilon,
                         " stored criterion=", state.gradient_test(), " stored f=", state.fx());
    if (!identical && std::isfinite(test) && std::isfinite(state.gradient_test()))
    {
        // evaluation noise (e.g. a different summation order) of at most 1e-3*epsilon is tolerated 10-fold
        const auto noise = std::fabs(test - state.gradient_test());
        if (noise <= 1e-3 * epsilon && test < epsilon + 10.0 * noise)
        {
            return verdict_t::borderline(where + "/criterion-within-evaluation-noise");
        }
    }
    return verdict_t::violation("C01/" + where + "/converged-but-criterion-not-below-epsilon", msg);
}

const char* status_name(nano::solver_status s)
{
    switch (s)
    {
    case nano::solver_status::max_iters: return "max_iters";
    case nano::solver_status::converged: return "converged";
    case nano::solver_status::failed: return "failed";
    case nano::solver_status::unfeasible: return "unfeasible";
    default: return "unbounded";
    }
}

// =========================================================================================================
// part A
// =========================================================================================================
struct acase_t : spec_t
{
    int                 solver{0}; // 0 lbfgs, 1 bfgs, 2 bfgs with the documented `scaled` initialisation of the inverse Hessian
    std::vector<double> x0;

    template <class A>
    void io(A& a)
    {
        a("solver", solver);
        io_spec(a);
        a("x0", x0);
    }
};

rc::Gen<acase_t> gen_acase()
{
    return rc::gen::exec(
        []
        {
            acase_t c;
            c.solver = *rc::gen::element(0, 0, 0, 1, 1, 2);
            gen_spec(c, 3.0, 30);
            const auto n  = static_cast<size_t>(c.n);
            const int  xs = *gen::range<int>(0, 9);
            if (xs <= 1)
            {
                c.x0 = *rc::gen::container<std::vector<double>>(n, rc::gen::element(-10.0, 10.0)); // corners of the box
            }
            else if (xs == 2)
            {
                c.x0 = c.xstar; // starts at the minimiser
            }
            else
            {
                c.x0 = *gen::vec(n, 10.0);
            }
            return c;
        });
}

verdict_t check_solve(const acase_t& c, ctx_t& ctx)
{
    nano::verif::rng_state().store(0x5eed0001ULL);
    if (const auto why = spec_domain(c, 1e3); !why.empty())
    {
        return verdict_t::discard(why);
    }
    if (c.solver < 0 || c.solver > 2 || c.x0.size() != static_cast<size_t>(c.n))
    {
        return verdict_t::discard("malformed-case");
    }
    for (const auto v : c.x0)
    {
        if (!(std::fabs(v) <= 10.0))
        {
            return verdict_t::discard("start-out-of-domain");
        }
    }

    constexpr double epsilon   = 1e-8;
    constexpr long   max_evals = 1500;
    const char*      id        = c.solver == 0 ? "lbfgs" : "bfgs";
    const bool       scaled    = c.solver == 2;

    const auto           b = build(c);
    const quadratic_fn_t function(b);
    const auto           x0 = to_vector(c.x0);

    std::optional<nano::solver_state_t> result;
    try
    {
        auto solver = nano::solver_t::all().get(id);
        if (!solver)
        {
            return verdict_t::violation("C01/solve/solver-not-registered", id);
        }
        solver->parameter("solver::epsilon")   = epsilon;
        solver->parameter("solver::max_evals") = max_evals;
        if (scaled)
        {
            solver->parameter("solver::quasi::initialization") = std::string("scaled");
        }
        // half of the cases run a COPY of the configured object (as ml::params_t and per-thread copies do); derived from generated data, so that old replay files keep their meaning
        const bool via_clone = (static_cast<long long>(std::floor(std::fabs(x0(0)) * 1e6)) % 2) == 1;
        ctx.label_if(via_clone, "solver-used-through-clone");
        const auto cloned = via_clone ? solver->clone() : nano::rsolver_t{};
        result            = (via_clone ? *cloned : *solver).minimize(function, x0, nano::make_null_logger());
    }
    catch (const std::exception& e)
    {
        return verdict_t::violation("C01/exception/solve", e.what());
    }
    const auto& state = *result;
    const auto  evals = function.fevals() + function.gevals();

    ctx.label(scaled ? "bfgs-scaled-initialization" : id);
    ctx.label(c.layout == 0 ? "spectrum:geometric" : c.layout == 1 ? "spectrum:clustered" : "spectrum:random");
    ctx.label_if(c.kappa == 1e3, "kappa=1e3");
    ctx.label_if(c.kappa == 1.0 || c.n == 1, "kappa=1");
    ctx.label_if(c.s == 1e-3, "s=1e-3");
    ctx.label_if(c.s == 1e3, "s=1e3");
    ctx.label_if(c.n == 1, "n=1");
    ctx.label_if(c.n == 16, "n=16");
    ctx.label_if(c.x0 == c.xstar, "start-at-minimiser");
    ctx.label(evals <= 2 ? "evals<=2" : evals <= 50 ? "evals<=50" : evals <= 150 ? "evals<=150" : evals <= 400 ? "evals<=400" : "evals>400");
    ctx.maximum("solve:evaluations", static_cast<double>(evals));

    if (state.status() != nano::solver_status::converged)
    {
        return verdict_t::violation("C01/solve/not-converged",
                                    cat(id, " status=", status_name(state.status()), " evaluations=", evals, " n=", c.n, " kappa=", c.kappa,
                                        " s=", c.s, " criterion=", state.gradient_test()));
    }
    if (evals > max_evals)
    {
        return verdict_t::violation("C01/solve/too-many-evaluations", cat(id, " evaluations=", evals));
    }
    if (state.x().size() != c.n)
    {
        return verdict_t::violation("C01/solve/converged-with-wrong-dimension", cat("size=", state.x().size()));
    }

    // truthfulness of `converged` (second clause of the statement, lbfgs and bfgs are line-search solvers)
    {
        const quadratic_fn_t fresh(b);
        const auto           v = check_truthful_state(fresh, state, epsilon, "solve", ctx);
        if (!v.is_ok())
        {
            return v;
        }
    }

    // distance to the minimiser
    nano::vector_t x(state.x());
    ld             err2 = 0.0L, xn2 = 0.0L, rn2 = 0.0L;
    for (int i = 0; i < c.n; ++i)
    {
        const ld xi = x(i);
        const ld ri = b.xref[static_cast<size_t>(i)];
        err2 += (xi - ri) * (xi - ri);
        xn2 += xi * xi;
        rn2 += ri * ri;
    }
    const auto err   = static_cast<double>(std::sqrt(err2));
    const auto fx    = static_cast<double>(value_ld(b, x));
    const auto bound = std::sqrt(static_cast<double>(c.n)) * epsilon * std::max(1.0, std::fabs(fx)) / b.lmin;
    // rounding: the reference minimiser and lambda_min of the rounded matrix are known to ~eps*kappa relative
    const auto slack = 1e3 * eps * static_cast<double>(std::sqrt(xn2) + std::sqrt(rn2));
    ctx.maximum("solve:error/bound", err / bound);
    if (!(err <= bound))
    {
        const auto msg = cat(id, " |x-x*|=", err, " bound=", bound, " ratio=", err / bound, " n=", c.n, " kappa=", c.kappa, " s=", c.s, " f(x)=", fx,
                             " evaluations=", evals);
        if (err <= bound * (1.0 + 1e4 * eps * b.kappa_eff) + 10.0 * slack)
        {
            return verdict_t::borderline("solve/error-bound");
        }
        return verdict_t::violation("C01/solve/minimiser-error-above-bound", msg);
    }
    ctx.label(err <= 0.01 * bound ? "error/bound<=0.01" : err <= 0.1 * bound ? "error/bound<=0.1" : err <= 0.5 * bound ? "error/bound<=0.5" : "error/bound>0.5");
    ctx.nontrivial = c.n >= 2 && c.kappa >= 10.0;
    return verdict_t::ok();
}

// =========================================================================================================
// part B
// =========================================================================================================
struct bcase_t : spec_t
{
    std::string         solver, lsearch0, lsearchk;
    double              c1{1e-4}, c2{0.1}, epsilon{1e-8};
    int                 max_evals{1000};
    std::string         function; // empty: the generated quadratic, otherwise the id of a registered smooth function
    int                 dims{1};
    int                 summands{10};
    std::vector<double> x0;

    template <class A>
    void io(A& a)
    {
        a("solver", solver);
        a("lsearch0", lsearch0);
        a("lsearchk", lsearchk);
        a("c1", c1);
        a("c2", c2);
        a("epsilon", epsilon);
        a("max_evals", max_evals);
        a("function", function);
        a("dims", dims);
        a("summands", summands);
        io_spec(a);
        a("x0", x0);
    }
};

const std::vector<std::string>& lsearch_solver_ids()
{
    static const auto ids = []
    {
        std::vector<std::string> out;
        for (const auto& id : nano::solver_t::all().ids())
        {
            if (nano::solver_t::all().get(id)->type() == nano::solver_type::line_search)
            {
                out.push_back(id);
            }
        }
        std::sort(out.begin(), out.end());
        return out;
    }();
    return ids;
}

const std::vector<std::string>& smooth_function_ids()
{
    static const auto ids = []
    {
        std::vector<std::string> out;
        for (const auto& id : nano::function_t::all().ids())
        {
            if (nano::function_t::all().get(id)->smooth())
            {
                out.push_back(id);
            }
        }
        std::sort(out.begin(), out.end());
        return out;
    }();
    return ids;
}

template <class tfactory>
std::vector<std::string> sorted_ids(const tfactory& factory)
{
    auto ids = factory.ids();
    std::sort(ids.begin(), ids.end());
    return ids;
}

nano::rfunction_t make_registered(const std::string& id, int dims, int summands)
{
    const auto proto = nano::function_t::all().get(id);
    return proto ? proto->make(dims, summands) : nano::rfunction_t{};
}

rc::Gen<bcase_t> gen_bcase()
{
    return rc::gen::exec(
        []
        {
            bcase_t c;
            c.solver   = *rc::gen::elementOf(lsearch_solver_ids());
            c.lsearch0 = *rc::gen::elementOf(sorted_ids(nano::lsearch0_t::all()));
            c.lsearchk = *rc::gen::elementOf(sorted_ids(nano::lsearchk_t::all()));
            // 0 < c1 < c2 < 1: both log-uniform (towards 0), c2 also close to 1
            c.c1 = *gen::logu(1e-8, 0.9);
            c.c2 = *gen::chance(50) ? c.c1 + (1.0 - c.c1) * *gen::real(1e-6, 1.0 - 1e-6) : 1.0 - (1.0 - c.c1) * *gen::logu(1e-6, 1.0 - 1e-6);
            if (!(c.c1 < c.c2 && c.c2 < 1.0))
            {
                c.c2 = 0.5 * (c.c1 + 1.0);
            }
            c.epsilon   = *gen::chance(10) ? *rc::gen::element(1e-12, 1e-2, 1e-8) : *gen::logu(1e-12, 1e-2);
            c.epsilon   = std::min(1e-2, std::max(1e-12, c.epsilon));
            c.max_evals = *rc::gen::oneOf(gen::range<int>(10, 5000), gen::range<int>(10, 100), gen::range<int>(1000, 5000));
            size_t n    = 0;
            if (*gen::chance(30))
            {
                gen_spec(c, 6.0);
                n = static_cast<size_t>(c.n);
            }
            else
            {
                c.function = *rc::gen::elementOf(smooth_function_ids());
                c.dims     = *rc::gen::oneOf(gen::range<int>(1, 32), gen::range<int>(1, 8));
                c.summands = *gen::range<int>(1, 60);
                const auto f = make_registered(c.function, c.dims, c.summands);
                n            = f ? static_cast<size_t>(f->size()) : 0U;
                // unused quadratic part: minimal and valid
                c.n = 1;
                c.gauss.assign(1, 1.0);
                c.u.assign(1, 0.0);
                c.xstar.assign(1, 0.0);
            }
            if (!c.function.empty() && *gen::chance(3))
            {
                // boundary of the stopping rule: on the sphere function (f = x.x, g = 2x, both exact here) a start with
                // max|x_i| = epsilon/2 has criterion == epsilon exactly, which is NOT below epsilon
                c.function = "sphere";
                c.dims     = *gen::range<int>(1, 8);
                const auto f = make_registered(c.function, c.dims, c.summands);
                n            = f ? static_cast<size_t>(f->size()) : 0U;
                const auto signs = *rc::gen::container<std::vector<double>>(n, rc::gen::element(-1.0, 1.0, 0.5, -0.25, 0.0));
                const auto pivot = *gen::range<size_t>(0, n > 0 ? n - 1 : 0);
                for (size_t i = 0; i < n; ++i)
                {
                    c.x0.push_back(0.5 * c.epsilon * (i == pivot ? (signs[i] < 0.0 ? -1.0 : 1.0) : signs[i]));
                }
                return c;
            }
            const auto radius = *gen::logu(1e-3, 10.0);
            const auto unit   = *gen::vec(n, 1.0);
            for (const auto v : unit)
            {
                c.x0.push_back(std::min(10.0, std::max(-10.0, radius * v)));
            }
            return c;
        });
}

verdict_t check_truthful(const bcase_t& c, ctx_t& ctx)
{
    nano::verif::rng_state().store(0x5eed0002ULL);

    // ---- domain --------------------------------------------------------------------------------------
    if (!(c.c1 > 0.0 && c.c1 < c.c2 && c.c2 < 1.0))
    {
        return verdict_t::discard("tolerances-out-of-domain");
    }
    if (!(c.epsilon >= 1e-12 && c.epsilon <= 1e-2) || c.max_evals < 10 || c.max_evals > 5000)
    {
        return verdict_t::discard("epsilon-or-budget-out-of-domain");
    }
    const auto& solver_ids = lsearch_solver_ids();
    if (!std::binary_search(solver_ids.begin(), solver_ids.end(), c.solver) || !nano::lsearch0_t::all().get(c.lsearch0) ||
        !nano::lsearchk_t::all().get(c.lsearchk))
    {
        return verdict_t::discard("unknown-solver-or-line-search");
    }
    nano::rfunction_t            function, fresh;
    std::optional<built_t>       built;
    if (c.function.empty())
    {
        if (const auto why = spec_domain(c, 1e6); !why.empty())
        {
            return verdict_t::discard(why);
        }
        built    = build(c);
        function = std::make_unique<quadratic_fn_t>(*built);
        fresh    = std::make_unique<quadratic_fn_t>(*built);
    }
    else
    {
        if (c.dims < 1 || c.dims > 32 || c.summands < 1 || c.summands > 1000)
        {
            return verdict_t::discard("dimensions-out-of-domain");
        }
        function = make_registered(c.function, c.dims, c.summands);
        fresh    = make_registered(c.function, c.dims, c.summands); // second instance, built from scratch
        if (!function || !fresh)
        {
            return verdict_t::discard("unknown-function");
        }
        if (!function->smooth())
        {
            return verdict_t::discard("function-not-smooth");
        }
    }
    if (c.x0.size() != static_cast<size_t>(function->size()))
    {
        return verdict_t::discard("start-dimension-mismatch");
    }
    for (const auto v : c.x0)
    {
        if (!(std::fabs(v) <= 10.0))
        {
            return verdict_t::discard("start-out-of-domain");
        }
    }

    // ---- run -----------------------------------------------------------------------------------------
    const auto                          x0 = to_vector(c.x0);
    std::optional<nano::solver_state_t> result;
    try
    {
        auto solver = nano::solver_t::all().get(c.solver);
        solver->lsearch0(c.lsearch0);
        solver->lsearchk(c.lsearchk);
        solver->parameter("solver::tolerance") = std::make_tuple(c.c1, c.c2);
        solver->parameter("solver::epsilon")   = c.epsilon;
        solver->parameter("solver::max_evals") = c.max_evals;
        // half of the cases run a COPY of the configured object (as ml::params_t and per-thread copies do); derived from generated data, so that old replay files keep their meaning
        const bool via_clone = (static_cast<long long>(std::floor(std::fabs(x0(0)) * 1e6)) % 2) == 1;
        ctx.label_if(via_clone, "solver-used-through-clone");
        const auto cloned = via_clone ? solver->clone() : nano::rsolver_t{};
        result            = (via_clone ? *cloned : *solver).minimize(*function, x0, nano::make_null_logger());
    }
    catch (const std::exception& e)
    {
        return verdict_t::violation("C01/exception/truthful", e.what());
    }
    const auto& state = *result;

    ctx.label("solver:" + c.solver);
    ctx.label("lsearch0:" + c.lsearch0);
    ctx.label("lsearchk:" + c.lsearchk);
    ctx.label(c.function.empty() ? "function:generated-quadratic" : "function:" + c.function);
    ctx.label(std::string("status:") + status_name(state.status()));
    ctx.label_if(!function->convex(), "non-convex");
    {
        // corner class: the criterion at the start equals epsilon exactly (evaluated on the second instance)
        nano::vector_t g0(fresh->size());
        const auto     f0 = fresh->vgrad(x0, g0);
        ctx.label_if(g0.lpNorm<Eigen::Infinity>() / std::max(1.0, std::fabs(f0)) == c.epsilon, "criterion-equals-epsilon-at-start");
    }

    if (state.status() != nano::solver_status::converged)
    {
        return verdict_t::ok(); // nothing is promised
    }
    const auto v = check_truthful_state(*fresh, state, c.epsilon, "truthful", ctx);
    if (!v.is_ok())
    {
        return v;
    }
    bool moved = state.x().size() == x0.size() && function->fcalls() > 1;
    if (moved)
    {
        moved = false;
        for (nano::tensor_size_t i = 0; i < x0.size(); ++i)
        {
            moved = moved || state.x()(i) != x0(i);
        }
    }
    ctx.label_if(!moved, "converged-at-start");
    if (moved)
    {
        ctx.label("converged-after-line-search:" + c.solver);
    }
    ctx.nontrivial = moved;
    return verdict_t::ok();
}
} // namespace

int main(int argc, char** argv)
{
    suite_t suite("C01");
    suite.add<acase_t>("solve", gen_acase, check_solve, 3.0);
    suite.add<bcase_t>("truthful", gen_bcase, check_truthful, 1.0);
    return suite.main(argc, argv);
}
