// C01 — L-BFGS/BFGS solve well-conditioned quadratics, truthfully (DESIGN.md section 5, C01).
//
// sub-check "solve"    (part A): lbfgs/bfgs at epsilon=1e-8 on generated strongly convex quadratics
//                      (kappa <= 1e3, s in [1e-3,1e3], n <= 16, |x0|_inf <= 10) return `converged` within
//                      1500 function+gradient evaluations (counted by the harness' own function object) and
//                      ||x-x*||_2 <= sqrt(n)*eps*max(1,|f(x)|)/lambda_min (x*, f, lambda_min known by construction).
// sub-check "truthful" (part B): all 17 line-search solvers x 4 lsearch0 x 5 lsearchk x (c1,c2) x epsilon x
//                      max_evals on generated quadratics and on every registered smooth function:
//                      status == converged  =>  max|grad f(x)|/max(1,|f(x)|) < epsilon, with f and grad f
//                      re-evaluated on a second, freshly constructed instance of the function.
#include "common.h"

#include <nano/core/verif.h>
#include <nano/function.h>
#include <nano/solver.h>

#include <optional>

using namespace verif;

namespace
{
using ld             = long double;
constexpr double eps = std::numeric_limits<double>::epsilon();

// ---- generated quadratic: 0.5 x'Ax + a'x, A = s*Q*diag(kappa^e_i)*Q', a = -A x* --------------------------
struct spec_t
{
    int                 n{1};
    double              kappa{1.0}; // condition number
    double              s{1.0};     // curvature scale = smallest eigenvalue
    int                 layout{0};  // 0 geometric, 1 clustered at both ends, 2 random (exponents from `u`)
    std::vector<double> gauss;      // n*n entries: Q = orthogonal factor of the Householder QR of this matrix
    std::vector<double> u;          // n reals in [0,1]
    std::vector<double> xstar;      // minimiser

    template <class A>
    void io_spec(A& a)
    {
        a("n", n);
        a("kappa", kappa);
        a("s", s);
        a("layout", layout);
        a("gauss", gauss);
        a("u", u);
        a("xstar", xstar);
    }
};

struct built_t
{
    int                 n{0};
    std::vector<double> A;     // row major, exactly symmetric
    std::vector<double> a;     // -A*xstar rounded to double
    std::vector<ld>     xref;  // minimiser of the rounded (A, a) (first-order corrected for the rounding of a)
    double              lmin{0}, lmax{0};
    double              kappa_eff{1};
};

// returns an empty string when the specification is inside the domain
std::string spec_domain(const spec_t& c, double max_kappa)
{
    const auto n = static_cast<size_t>(c.n);
    if (c.n < 1 || c.n > 16)
    {
        return "n-out-of-domain";
    }
    if (!(c.kappa >= 1.0 && c.kappa <= max_kappa) || !(c.s >= 1e-3 && c.s <= 1e3))
    {
        return "spectrum-out-of-domain";
    }
    if (c.layout < 0 || c.layout > 2 || c.gauss.size() != n * n || c.u.size() != n || c.xstar.size() != n)
    {
        return "malformed-specification";
    }
    for (const auto v : c.gauss)
    {
        if (!std::isfinite(v) || std::fabs(v) > 1e3)
        {
            return "malformed-specification";
        }
    }
    for (const auto v : c.u)
    {
        if (!(v >= 0.0 && v <= 1.0))
        {
            return "malformed-specification";
        }
    }
    for (const auto v : c.xstar)
    {
        if (!(std::fabs(v) <= 5.0))
        {
            return "minimiser-out-of-domain";
        }
    }
    return {};
}

built_t build(const spec_t& c)
{
    const int n = c.n;
    const auto at = [n](int i, int j) { return static_cast<size_t>(i) * static_cast<size_t>(n) + static_cast<size_t>(j); };

    // Householder QR (long double): Q = H_0 H_1 ... H_{n-2}; a degenerate column leaves H_k = I
    std::vector<ld> G(c.gauss.begin(), c.gauss.end());
    std::vector<ld> Q(static_cast<size_t>(n) * static_cast<size_t>(n), 0.0L);
    for (int i = 0; i < n; ++i)
    {
        Q[at(i, i)] = 1.0L;
    }
    std::vector<ld> v(static_cast<size_t>(n));
    for (int k = 0; k + 1 < n; ++k)
    {
        ld norm2 = 0.0L;
        for (int i = k; i < n; ++i)
        {
            norm2 += G[at(i, k)] * G[at(i, k)];
        }
        const ld norm = std::sqrt(norm2);
        if (!(norm > 0.0L))
        {
            continue;
        }
        const ld alpha = G[at(k, k)] >= 0.0L ? -norm : norm;
        ld       vn2   = 0.0L;
        for (int i = k; i < n; ++i)
        {
            v[static_cast<size_t>(i)] = G[at(i, k)] - (i == k ? alpha : 0.0L);
            vn2 += v[static_cast<size_t>(i)] * v[static_cast<size_t>(i)];
        }
        if (!(vn2 > 0.0L))
        {
            continue;
        }
        for (int j = k; j < n; ++j) // G <- H G
        {
            ld dot = 0.0L;
            for (int i = k; i < n; ++i)
            {
                dot += v[static_cast<size_t>(i)] * G[at(i, j)];
            }
            const ld f = 2.0L * dot / vn2;
            for (int i = k; i < n; ++i)
            {
                G[at(i, j)] -= f * v[static_cast<size_t>(i)];
            }
        }
        for (int i = 0; i < n; ++i) // Q <- Q H
        {
            ld dot = 0.0L;
            for (int j = k; j < n; ++j)
            {
                dot += Q[at(i, j)] * v[static_cast<size_t>(j)];
            }
            const ld f = 2.0L * dot / vn2;
            for (int j = k; j < n; ++j)
            {
                Q[at(i, j)] -= f * v[static_cast<size_t>(j)];
            }
        }
    }

    // spectrum: s * kappa^e, e_0 = 0, e_{n-1} = 1
    std::vector<ld> d(static_cast<size_t>(n));
    for (int i = 0; i < n; ++i)
    {
        ld e = 0.0L;
        if (n > 1)
        {
            const ld ui = c.u[static_cast<size_t>(i)];
            switch (c.layout)
            {
            case 0: e = static_cast<ld>(i) / static_cast<ld>(n - 1); break;
            case 1: e = (2 * i < n) ? 0.03L * ui : 1.0L - 0.03L * ui; break;
            default: e = ui; break;
            }
            if (i == 0)
            {
                e = 0.0L;
            }
            if (i == n - 1)
            {
                e = 1.0L;
            }
        }
        d[static_cast<size_t>(i)] = static_cast<ld>(c.s) * std::pow(static_cast<ld>(c.kappa), e);
    }

    built_t b;
    b.n = n;
    b.A.resize(static_cast<size_t>(n) * static_cast<size_t>(n));
    for (int i = 0; i < n; ++i)
    {
        for (int j = i; j < n; ++j)
        {
            ld sum = 0.0L;
            for (int k = 0; k < n; ++k)
            {
                sum += Q[at(i, k)] * d[static_cast<size_t>(k)] * Q[at(j, k)];
            }
            b.A[at(i, j)] = b.A[at(j, i)] = static_cast<double>(sum);
        }
    }
    b.a.resize(static_cast<size_t>(n));
    std::vector<ld> da(static_cast<size_t>(n)); // rounding of a
    for (int i = 0; i < n; ++i)
    {
        ld sum = 0.0L;
        for (int j = 0; j < n; ++j)
        {
            sum -= static_cast<ld>(b.A[at(i, j)]) * static_cast<ld>(c.xstar[static_cast<size_t>(j)]);
        }
        b.a[static_cast<size_t>(i)] = static_cast<double>(sum);
        da[static_cast<size_t>(i)]  = static_cast<ld>(b.a[static_cast<size_t>(i)]) - sum;
    }
    // minimiser of the rounded problem: x* - A^{-1} da, A^{-1} ~ Q diag(1/d) Q'
    b.xref.assign(c.xstar.begin(), c.xstar.end());
    for (int k = 0; k < n; ++k)
    {
        ld proj = 0.0L;
        for (int j = 0; j < n; ++j)
        {
            proj += Q[at(j, k)] * da[static_cast<size_t>(j)];
        }
        for (int i = 0; i < n; ++i)
        {
            b.xref[static_cast<size_t>(i)] -= Q[at(i, k)] * proj / d[static_cast<size_t>(k)];
        }
    }
    b.lmin      = c.s;
    b.lmax      = static_cast<double>(d[static_cast<size_t>(n - 1)]);
    b.kappa_eff = n > 1 ? c.kappa : 1.0;
    return b;
}

// the objective handed to the solver: plain double arithmetic, own evaluation counters
class quadratic_fn_t final : public nano::function_t
{
public:
    explicit quadratic_fn_t(const built_t& b)
        : nano::function_t("verif-quadratic", b.n)
        , m_A(b.n, b.n)
        , m_a(b.n)
    {
        for (int i = 0; i < b.n; ++i)
        {
            m_a(i) = b.a[static_cast<size_t>(i)];
            for (int j = 0; j < b.n; ++j)
            {
                m_A(i, j) = b.A[static_cast<size_t>(i) * static_cast<size_t>(b.n) + static_cast<size_t>(j)];
            }
        }
        convex(nano::convexity::yes);
        smooth(nano::smoothness::yes);
    }

    nano::rfunction_t clone() const override { return std::make_unique<quadratic_fn_t>(*this); }

    nano::scalar_t do_vgrad(nano::vector_cmap_t x, nano::vector_map_t gx) const override
    {
        ++m_fevals;
        m_Ax.noalias() = m_A * x.vector();
        if (gx.size() == x.size())
        {
            ++m_gevals;
            gx.vector() = m_Ax + m_a;
        }
        return 0.5 * x.vector().dot(m_Ax) + x.vector().dot(m_a);
    }

    long fevals() const { return m_fevals; }

    long gevals() const { return m_gevals; }

private:
    Eigen::MatrixXd         m_A;
    Eigen::VectorXd         m_a;
    mutable Eigen::VectorXd m_Ax;
    mutable long            m_fevals{0};
    mutable long            m_gevals{0};
};

ld value_ld(const built_t& b, const nano::vector_t& x)
{
    const auto n   = static_cast<size_t>(b.n);
    ld         sum = 0.0L;
    for (size_t i = 0; i < n; ++i)
    {
        ld row = 0.0L;
        for (size_t j = 0; j < n; ++j)
        {
            row += static_cast<ld>(b.A[i * n + j]) * static_cast<ld>(x(static_cast<nano::tensor_size_t>(j)));
        }
        sum += static_cast<ld>(x(static_cast<nano::tensor_size_t>(i))) * (0.5L * row + static_cast<ld>(b.a[i]));
    }
    return sum;
}

nano::vector_t to_vector(const std::vector<double>& v)
{
    nano::vector_t x(static_cast<nano::tensor_size_t>(v.size()));
    for (size_t i = 0; i < v.size(); ++i)
    {
        x(static_cast<nano::tensor_size_t>(i)) = v[i];
    }
    return x;
}

// ---- the truthfulness oracle (both sub-checks) ----------------------------------------------------------
// `fresh` is an instance of the objective the solver never saw. Returns the recomputed criterion.
verdict_t check_truthful_state(const nano::function_t& fresh, const nano::solver_state_t& state, double epsilon,
                               const std::string& where, ctx_t& ctx)
{
    if (state.x().size() != fresh.size())
    {
        return verdict_t::violation("C01/" + where + "/converged-with-wrong-dimension", cat("size=", state.x().size()));
    }
    nano::vector_t x(state.x());
    nano::vector_t g(fresh.size());
    const auto     f    = fresh.vgrad(x, g);
    const auto     gmax = g.lpNorm<Eigen::Infinity>();
    const auto     test = gmax / std::max(1.0, std::fabs(f));
    ctx.maximum(where + ":criterion/epsilon", test / epsilon);

    // is the re-evaluation bit-identical to what the state stores? (informative, and decides the band below)
    bool identical = state.fx() == f && state.gx().size() == g.size();
    for (nano::tensor_size_t i = 0; identical && i < g.size(); ++i)
    {
        identical = state.gx()(i) == g(i);
    }
    ctx.label_if(!identical, "re-evaluation-differs-from-stored-state");

    if (test < epsilon)
    {
        return verdict_t::ok();
    }
    const auto msg = cat("recomputed max|g|=", gmax, " f=", f, " criterion=", test, " epsilon=", epsilon,
                         " stored criterion=", state.gradient_test(), " stored f=", state.fx());
    if (!identical && std::isfinite(test) && std::isfinite(state.gradient_test()))
    {
        // evaluation noise (e.g. a different summation order) of at most 1e-3*epsilon is tolerated 10-fold
        const auto noise = std::fabs(test - state.gradient_test());
        if (noise <= 1e-3 * epsilon && test < epsilon + 10.0 * noise)
        {
            return verdict_t::borderline(where + "/criterion-within-evaluation-noise");
        }
    }
    return verdict_t::violation("C01/" + where + "/converged-but-criterion-not-below-epsilon", msg);
}

const char* status_name(nano::solver_status s)
{
    switch (s)
    {
    case nano::solver_status::max_iters: return "max_iters";
    case nano::solver_status::converged: return "converged";
    case nano::solver_status::failed: return "failed";
    case nano::solver_status::unfeasible: return "unfeasible";
    default: return "unbounded";
    }
}

// =========================================================================================================
// part A
// =========================================================================================================
struct acase_t : spec_t
{
    int                 solver{0}; // 0 lbfgs, 1 bfgs
    std::vector<double> x0;

    template <class A>
    void io(A& a)
    {
        a("solver", solver);
        io_spec(a);
        a("x0", x0);
    }
};

// fills the quadratic specification; `max_log10_kappa` = 3 inside the domain of part A
void gen_spec(spec_t& c, double max_log10_kappa)
{
    // dimensions: all of 1..16, extra mass on the ends
    c.n = *rc::gen::oneOf(gen::range<int>(1, 16), gen::range<int>(1, 16), gen::range<int>(9, 16), rc::gen::element(1, 2, 3, 16));
    // kappa: 30 % exactly the maximum, 5 % exactly 1, the rest log-uniform
    const int kk = *gen::range<int>(0, 19);
    c.kappa      = kk < 6 ? std::pow(10.0, max_log10_kappa) : kk == 6 ? 1.0 : std::pow(10.0, *gen::real(0.0, max_log10_kappa));
    // s: 10 % on each end
    const int sk = *gen::range<int>(0, 9);
    c.s          = sk == 0 ? 1e-3 : sk == 1 ? 1e3 : std::pow(10.0, *gen::real(-3.0, 3.0));
    c.s          = std::min(1e3, std::max(1e-3, c.s));
    c.kappa      = std::min(std::pow(10.0, max_log10_kappa), std::max(1.0, c.kappa));
    c.layout     = *gen::range<int>(0, 2);
    const auto n = static_cast<size_t>(c.n);
    c.gauss      = *rc::gen::container<std::vector<double>>(n * n, gen::normal());
    c.u          = *rc::gen::container<std::vector<double>>(n, gen::real(0.0, 1.0));
    // minimiser: anywhere in the box, on its corners, or (rarely) the origin
    const int xs = *gen::range<int>(0, 9);
    if (xs == 0)
    {
        c.xstar = *rc::gen::container<std::vector<double>>(n, rc::gen::element(-5.0, 5.0));
    }
    else if (xs == 1)
    {
        c.xstar.assign(n, 0.0);
    }
    else
    {
        c.xstar = *gen::vec(n, 5.0);
    }
}

rc::Gen<acase_t> gen_acase()
{
    return rc::gen::exec(
        []
        {
            acase_t c;
            c.solver = *gen::range<int>(0, 1);
            gen_spec(c, 3.0);
            const auto n  = static_cast<size_t>(c.n);
            const int  xs = *gen::range<int>(0, 9);
            if (xs <= 1)
            {
                c.x0 = *rc::gen::container<std::vector<double>>(n, rc::gen::element(-10.0, 10.0)); // corners of the box
            }
            else if (xs == 2)
            {
                c.x0 = c.xstar; // starts at the minimiser
            }
            else
            {
                c.x0 = *gen::vec(n, 10.0);
            }
            return c;
        });
}

verdict_t check_solve(const acase_t& c, ctx_t& ctx)
{
    nano::verif::rng_state().store(0x5eed0001ULL);
    if (const auto why = spec_domain(c, 1e3); !why.empty())
    {
        return verdict_t::discard(why);
    }
    if (c.solver < 0 || c.solver > 1 || c.x0.size() != static_cast<size_t>(c.n))
    {
        return verdict_t::discard("malformed-case");
    }
    for (const auto v : c.x0)
    {
        if (!(std::fabs(v) <= 10.0))
        {
            return verdict_t::discard("start-out-of-domain");
        }
    }

    constexpr double epsilon   = 1e-8;
    constexpr long   max_evals = 1500;
    const char*      id        = c.solver == 0 ? "lbfgs" : "bfgs";

    const auto           b = build(c);
    const quadratic_fn_t function(b);
    const auto           x0 = to_vector(c.x0);

    std::optional<nano::solver_state_t> result;
    try
    {
        auto solver = nano::solver_t::all().get(id);
        if (!solver)
        {
            return verdict_t::violation("C01/solve/solver-not-registered", id);
        }
        solver->parameter("solver::epsilon")   = epsilon;
        solver->parameter("solver::max_evals") = max_evals;
        result                                 = solver->minimize(function, x0, nano::make_null_logger());
    }
    catch (const std::exception& e)
    {
        return verdict_t::violation("C01/exception/solve", e.what());
    }
    const auto& state = *result;
    const auto  evals = function.fevals() + function.gevals();

    ctx.label(id);
    ctx.label(c.layout == 0 ? "spectrum:geometric" : c.layout == 1 ? "spectrum:clustered" : "spectrum:random");
    ctx.label_if(c.kappa == 1e3, "kappa=1e3");
    ctx.label_if(c.kappa == 1.0 || c.n == 1, "kappa=1");
    ctx.label_if(c.s == 1e-3, "s=1e-3");
    ctx.label_if(c.s == 1e3, "s=1e3");
    ctx.label_if(c.n == 1, "n=1");
    ctx.label_if(c.n == 16, "n=16");
    ctx.label_if(c.x0 == c.xstar, "start-at-minimiser");
    ctx.label(evals <= 2 ? "evals<=2" : evals <= 50 ? "evals<=50" : evals <= 150 ? "evals<=150" : evals <= 400 ? "evals<=400" : "evals>400");
    ctx.maximum("solve:evaluations", static_cast<double>(evals));

    if (state.status() != nano::solver_status::converged)
    {
        return verdict_t::violation("C01/solve/not-converged",
                                    cat(id, " status=", status_name(state.status()), " evaluations=", evals, " n=", c.n, " kappa=", c.kappa,
                                        " s=", c.s, " criterion=", state.gradient_test()));
    }
    if (evals > max_evals)
    {
        return verdict_t::violation("C01/solve/too-many-evaluations", cat(id, " evaluations=", evals));
    }
    if (state.x().size() != c.n)
    {
        return verdict_t::violation("C01/solve/converged-with-wrong-dimension", cat("size=", state.x().size()));
    }

    // truthfulness of `converged` (second clause of the statement, lbfgs and bfgs are line-search solvers)
    {
        const quadratic_fn_t fresh(b);
        const auto           v = check_truthful_state(fresh, state, epsilon, "solve", ctx);
        if (!v.is_ok())
        {
            return v;
        }
    }

    // distance to the minimiser
    nano::vector_t x(state.x());
    ld             err2 = 0.0L, xn2 = 0.0L, rn2 = 0.0L;
    for (int i = 0; i < c.n; ++i)
    {
        const ld xi = x(i);
        const ld ri = b.xref[static_cast<size_t>(i)];
        err2 += (xi - ri) * (xi - ri);
        xn2 += xi * xi;
        rn2 += ri * ri;
    }
    const auto err   = static_cast<double>(std::sqrt(err2));
    const auto fx    = static_cast<double>(value_ld(b, x));
    const auto bound = std::sqrt(static_cast<double>(c.n)) * epsilon * std::max(1.0, std::fabs(fx)) / b.lmin;
    // rounding: the reference minimiser and lambda_min of the rounded matrix are known to ~eps*kappa relative
    const auto slack = 1e3 * eps * static_cast<double>(std::sqrt(xn2) + std::sqrt(rn2));
    ctx.maximum("solve:error/bound", err / bound);
    if (!(err <= bound))
    {
        const auto msg = cat(id, " |x-x*|=", err, " bound=", bound, " ratio=", err / bound, " n=", c.n, " kappa=", c.kappa, " s=", c.s, " f(x)=", fx,
                             " evaluations=", evals);
        if (err <= bound * (1.0 + 1e4 * eps * b.kappa_eff) + 10.0 * slack)
        {
            return verdict_t::borderline("solve/error-bound");
        }
        return verdict_t::violation("C01/solve/minimiser-error-above-bound", msg);
    }
    ctx.label(err <= 0.01 * bound ? "error/bound<=0.01" : err <= 0.1 * bound ? "error/bound<=0.1" : err <= 0.5 * bound ? "error/bound<=0.5" : "error/bound>0.5");
    ctx.nontrivial = c.n >= 2 && c.kappa >= 10.0;
    return verdict_t::ok();
}

// =========================================================================================================
// part B
// =========================================================================================================
struct bcase_t : spec_t
{
    std::string         solver, lsearch0, lsearchk;
    double              c1{1e-4}, c2{0.1}, epsilon{1e-8};
    int                 max_evals{1000};
    std::string         function; // empty: the generated quadratic, otherwise the id of a registered smooth function
    int                 dims{1};
    int                 summands{10};
    std::vector<double> x0;

    template <class A>
    void io(A& a)
    {
        a("solver", solver);
        a("lsearch0", lsearch0);
        a("lsearchk", lsearchk);
        a("c1", c1);
        a("c2", c2);
        a("epsilon", epsilon);
        a("max_evals", max_evals);
        a("function", function);
        a("dims", dims);
        a("summands", summands);
        io_spec(a);
        a("x0", x0);
    }
};

const std::vector<std::string>& lsearch_solver_ids()
{
    static const auto ids = []
    {
        std::vector<std::string> out;
        for (const auto& id : nano::solver_t::all().ids())
        {
            if (nano::solver_t::all().get(id)->type() == nano::solver_type::line_search)
            {
                out.push_back(id);
            }
        }
        std::sort(out.begin(), out.end());
        return out;
    }();
    return ids;
}

const std::vector<std::string>& smooth_function_ids()
{
    static const auto ids = []
    {
        std::vector<std::string> out;
        for (const auto& id : nano::function_t::all().ids())
        {
            if (nano::function_t::all().get(id)->smooth())
            {
                out.push_back(id);
            }
        }
        std::sort(out.begin(), out.end());
        return out;
    }();
    return ids;
}

template <class tfactory>
std::vector<std::string> sorted_ids(const tfactory& factory)
{
    auto ids = factory.ids();
    std::sort(ids.begin(), ids.end());
    return ids;
}

nano::rfunction_t make_registered(const std::string& id, int dims, int summands)
{
    const auto proto = nano::function_t::all().get(id);
    return proto ? proto->make(dims, summands) : nano::rfunction_t{};
}

rc::Gen<bcase_t> gen_bcase()
{
    return rc::gen::exec(
        []
        {
            bcase_t c;
            c.solver   = *rc::gen::elementOf(lsearch_solver_ids());
            c.lsearch0 = *rc::gen::elementOf(sorted_ids(nano::lsearch0_t::all()));
            c.lsearchk = *rc::gen::elementOf(sorted_ids(nano::lsearchk_t::all()));
            // 0 < c1 < c2 < 1: both log-uniform (towards 0), c2 also close to 1
            c.c1 = *gen::logu(1e-8, 0.9);
            c.c2 = *gen::chance(50) ? c.c1 + (1.0 - c.c1) * *gen::real(1e-6, 1.0 - 1e-6) : 1.0 - (1.0 - c.c1) * *gen::logu(1e-6, 1.0 - 1e-6);
            if (!(c.c1 < c.c2 && c.c2 < 1.0))
            {
                c.c2 = 0.5 * (c.c1 + 1.0);
            }
            c.epsilon   = *gen::chance(10) ? *rc::gen::element(1e-12, 1e-2, 1e-8) : *gen::logu(1e-12, 1e-2);
            c.epsilon   = std::min(1e-2, std::max(1e-12, c.epsilon));
            c.max_evals = *rc::gen::oneOf(gen::range<int>(10, 5000), gen::range<int>(10, 100), gen::range<int>(1000, 5000));
            size_t n    = 0;
            if (*gen::chance(30))
            {
                gen_spec(c, 6.0);
                n = static_cast<size_t>(c.n);
            }
            else
            {
                c.function = *rc::gen::elementOf(smooth_function_ids());
                c.dims     = *rc::gen::oneOf(gen::range<int>(1, 32), gen::range<int>(1, 8));
                c.summands = *gen::range<int>(1, 60);
                const auto f = make_registered(c.function, c.dims, c.summands);
                n            = f ? static_cast<size_t>(f->size()) : 0U;
                // unused quadratic part: minimal and valid
                c.n = 1;
                c.gauss.assign(1, 1.0);
                c.u.assign(1, 0.0);
                c.xstar.assign(1, 0.0);
            }
            const auto radius = *gen::logu(1e-3, 10.0);
            const auto unit   = *gen::vec(n, 1.0);
            for (const auto v : unit)
            {
                c.x0.push_back(std::min(10.0, std::max(-10.0, radius * v)));
            }
            return c;
        });
}

verdict_t check_truthful(const bcase_t& c, ctx_t& ctx)
{
    nano::verif::rng_state().store(0x5eed0002ULL);

    // ---- domain --------------------------------------------------------------------------------------
    if (!(c.c1 > 0.0 && c.c1 < c.c2 && c.c2 < 1.0))
    {
        return verdict_t::discard("tolerances-out-of-domain");
    }
    if (!(c.epsilon >= 1e-12 && c.epsilon <= 1e-2) || c.max_evals < 10 || c.max_evals > 5000)
    {
        return verdict_t::discard("epsilon-or-budget-out-of-domain");
    }
    const auto& solver_ids = lsearch_solver_ids();
    if (!std::binary_search(solver_ids.begin(), solver_ids.end(), c.solver) || !nano::lsearch0_t::all().get(c.lsearch0) ||
        !nano::lsearchk_t::all().get(c.lsearchk))
    {
        return verdict_t::discard("unknown-solver-or-line-search");
    }
    nano::rfunction_t            function, fresh;
    std::optional<built_t>       built;
    if (c.function.empty())
    {
        if (const auto why = spec_domain(c, 1e6); !why.empty())
        {
            return verdict_t::discard(why);
        }
        built    = build(c);
        function = std::make_unique<quadratic_fn_t>(*built);
        fresh    = std::make_unique<quadratic_fn_t>(*built);
    }
    else
    {
        if (c.dims < 1 || c.dims > 32 || c.summands < 1 || c.summands > 1000)
        {
            return verdict_t::discard("dimensions-out-of-domain");
        }
        function = make_registered(c.function, c.dims, c.summands);
        fresh    = make_registered(c.function, c.dims, c.summands); // second instance, built from scratch
        if (!function || !fresh)
        {
            return verdict_t::discard("unknown-function");
        }
        if (!function->smooth())
        {
            return verdict_t::discard("function-not-smooth");
        }
    }
    if (c.x0.size() != static_cast<size_t>(function->size()))
    {
        return verdict_t::discard("start-dimension-mismatch");
    }
    for (const auto v : c.x0)
    {
        if (!(std::fabs(v) <= 10.0))
        {
            return verdict_t::discard("start-out-of-domain");
        }
    }

    // ---- run -----------------------------------------------------------------------------------------
    const auto                          x0 = to_vector(c.x0);
    std::optional<nano::solver_state_t> result;
    try
    {
        auto solver = nano::solver_t::all().get(c.solver);
        solver->lsearch0(c.lsearch0);
        solver->lsearchk(c.lsearchk);
        solver->parameter("solver::tolerance") = std::make_tuple(c.c1, c.c2);
        solver->parameter("solver::epsilon")   = c.epsilon;
        solver->parameter("solver::max_evals") = c.max_evals;
        result                                 = solver->minimize(*function, x0, nano::make_null_logger());
    }
    catch (const std::exception& e)
    {
        return verdict_t::violation("C01/exception/truthful", e.what());
    }
    const auto& state = *result;

    ctx.label("solver:" + c.solver);
    ctx.label("lsearch0:" + c.lsearch0);
    ctx.label("lsearchk:" + c.lsearchk);
    ctx.label(c.function.empty() ? "function:generated-quadratic" : "function:" + c.function);
    ctx.label(std::string("status:") + status_name(state.status()));
    ctx.label_if(!function->convex(), "non-convex");

    if (state.status() != nano::solver_status::converged)
    {
        return verdict_t::ok(); // nothing is promised
    }
    const auto v = check_truthful_state(*fresh, state, c.epsilon, "truthful", ctx);
    if (!v.is_ok())
    {
        return v;
    }
    bool moved = state.x().size() == x0.size() && function->fcalls() > 1;
    if (moved)
    {
        moved = false;
        for (nano::tensor_size_t i = 0; i < x0.size(); ++i)
        {
            moved = moved || state.x()(i) != x0(i);
        }
    }
    ctx.label_if(!moved, "converged-at-start");
    if (moved)
    {
        ctx.label("converged-after-line-search:" + c.solver);
    }
    ctx.nontrivial = moved;
    return verdict_t::ok();
}
} // namespace

int main(int argc, char** argv)
{
    suite_t suite("C01");
    suite.add<acase_t>("solve", gen_acase, check_solve, 3.0);
    suite.add<bcase_t>("truthful", gen_bcase, check_truthful, 1.0);
    return suite.main(argc, argv);
}
