// C13 — tuning evaluates grid points once and reports the true best trial (DESIGN.md section 5, C13).
//
// Sub-check `tuner`: both tuners on generated grids / landscapes through a recording callback.
//   Oracle (reference model over the call history): every requested value is a grid value of its own column
//   (exact: the tuner copies them), no row is requested twice, at most max_evals + 3^d rows, a non-finite value is
//   answered with an exception, the returned steps are exactly the evaluated points with the values the callback
//   returned, sorted non-decreasing, the first one being the minimum observed.
// Sub-check `tune`: ml::tune with a recording, thread-safe callback whose outputs are a deterministic function
//   of (parameters, fold, sample id), under pools of 1 / 2 / 16 threads (NANO_VERIF_MAX_THREADS hook) and an
//   optional schedule perturbation (delay table, no clock, no RNG).
//   Oracle: exactly one call per (trial, fold) of the returned result with that fold's indices from the splitter,
//   stats(trial, fold, ., .) are the statistics of what that call returned, extra(trial, fold) is its payload,
//   optimum_trial() attains the minimum mean validation error (any arg-min is accepted).
#include "common.h"

#include <nano/core/parallel.h>
#include <nano/core/verif.h>
#include <nano/machine/tune.h>
#include <nano/splitter.h>
#include <nano/tuner.h>

#include <atomic>
#include <filesystem>
#include <mutex>
#include <thread>

using namespace verif;

namespace
{
using nano::scalar_t;
using nano::tensor_size_t;
constexpr double eps = std::numeric_limits<double>::epsilon();

inline uint64_t splitmix(uint64_t x)
{
    x += 0x9E3779B97F4A7C15ULL;
    x = (x ^ (x >> 30)) * 0xBF58476D1CE4E5B9ULL;
    x = (x ^ (x >> 27)) * 0x94D049BB133111EBULL;
    return x ^ (x >> 31);
}

inline uint64_t bits_of(const double v)
{
    uint64_t b = 0;
    std::memcpy(&b, &v, sizeof(b));
    return b;
}

// ---- grids ----------------------------------------------------------------------------------------------------
using grid_t = std::vector<double>;

bool valid_grid(const grid_t& grid, const bool log10)
{
    if (grid.size() < 2 || grid.size() > 31)
    {
        return false;
    }
    for (size_t i = 0; i < grid.size(); ++i)
    {
        if (!std::isfinite(grid[i]) || std::fabs(grid[i]) > 1e13 || (i > 0 && !(grid[i - 1] < grid[i])) || (log10 && !(grid[i] >= 1e-9)))
        {
            return false;
        }
    }
    return true;
}

// strictly increasing values: start + positive increments (linear) or 10^(start + positive increments) (log10)
rc::Gen<grid_t> gen_grid(const bool log10, const size_t min_size, const size_t max_size)
{
    return rc::gen::mapcat(
        rc::gen::pair(gen::range<size_t>(min_size, max_size), gen::range<int>(0, 2)),
        [=](const std::pair<size_t, int>& ns)
        {
            const auto n     = ns.first;
            const auto style = ns.second;
            const auto start = log10 ? gen::smallint(-6, 0) : (style == 0 ? gen::smallint(-5, 5) : gen::sym(100.0));
            const auto inc   = log10 ? (style == 0 ? gen::smallint(1, 1) : style == 1 ? rc::gen::just(0.5) : gen::real(0.05, 1.0))
                                     : (style == 0 ? gen::smallint(1, 3) : style == 1 ? rc::gen::just(0.125) : gen::real(1e-3, 10.0));
            return rc::gen::map(rc::gen::pair(start, rc::gen::container<std::vector<double>>(n - 1, inc)),
                                [=](const std::pair<double, std::vector<double>>& si)
                                {
                                    // log10 grids span at most 12 decades
                                    const auto scale = log10 ? std::min(1.0, 12.0 / static_cast<double>(n - 1)) : 1.0;
                                    grid_t     grid;
                                    auto       x = si.first;
                                    grid.push_back(log10 ? std::pow(10.0, x) : x);
                                    for (const auto d : si.second)
                                    {
                                        x += d * scale;
                                        grid.push_back(log10 ? std::pow(10.0, x) : x);
                                    }
                                    return grid;
                                });
        });
}

nano::param_spaces_t make_spaces(const std::vector<grid_t>& grids, const std::vector<int>& log10)
{
    nano::param_spaces_t spaces;
    for (size_t j = 0; j < grids.size(); ++j)
    {
        nano::tensor1d_t values(static_cast<tensor_size_t>(grids[j].size()));
        for (size_t i = 0; i < grids[j].size(); ++i)
        {
            values(static_cast<tensor_size_t>(i)) = grids[j][i];
        }
        spaces.emplace_back("param" + std::to_string(j), log10[j] != 0 ? nano::param_space_t::type::log10 : nano::param_space_t::type::linear,
                            std::move(values));
    }
    return spaces;
}

const char* tuner_ids[] = {"local-search", "surrogate"};

bool surrogate_failure(const std::string& what)
{
    return what.find("failed to fit the surrogate model") != std::string::npos ||
           what.find("failed to optimize the surrogate model") != std::string::npos;
}

// ---- sub-check: tuners ----------------------------------------------------------------------------------------------
struct tcase_t
{
    int                 tuner{0};
    int                 max_evals{100};
    std::vector<grid_t> grids;
    std::vector<int>    log10;
    int                 landscape{0};
    std::vector<double> coeffs; // 9 numbers in [-1, 1]
    int                 seed{0};
    std::vector<int>    bad;    // empty, or the grid point that evaluates to a non-finite value
    int                 bad_kind{0};

    template <class A>
    void io(A& a)
    {
        a("tuner", tuner);
        a("max_evals", max_evals);
        a("grids", grids);
        a("log10", log10);
        a("landscape", landscape);
        a("coeffs", coeffs);
        a("seed", seed);
        a("bad", bad);
        a("bad_kind", bad_kind);
    }
};

constexpr int nlandscapes = 10;
const char*   landscape_names[nlandscapes] = {"smooth-bowl", "plateau", "quantised-bowl", "minimum-in-corner", "random-1e3", "monotone",
                                              "constant", "random-4-levels", "tiny-valued-bowl", "values-one-ulp-apart"};

double landscape(const tcase_t& c, const std::vector<long>& idx)
{
    const auto d = c.grids.size();
    double     bowl = 0.0, corner = 0.0, mono = 0.0;
    uint64_t   lin = 0;
    for (size_t j = 0; j < d; ++j)
    {
        const auto n  = static_cast<double>(c.grids[j].size());
        const auto u  = static_cast<double>(idx[j]) / (n - 1.0);
        const auto a  = 0.5 + 4.5 * std::fabs(c.coeffs[j]);
        const auto cj = 0.5 * (c.coeffs[3 + j] + 1.0);
        bowl += a * (u - cj) * (u - cj);
        corner += a * std::fabs(u - (c.coeffs[3 + j] > 0 ? 1.0 : 0.0));
        mono += (c.coeffs[3 + j] > 0 ? a : -a) * u;
        lin = lin * 31 + static_cast<uint64_t>(idx[j]);
    }
    const auto b = 10.0 * c.coeffs[6];
    switch (c.landscape)
    {
    case 0: return b + bowl;
    case 1: return b + std::max(bowl, 0.2 + 0.5 * std::fabs(c.coeffs[7]));
    case 2: return b + std::floor(4.0 * bowl) / 4.0;
    case 3: return b + corner;
    case 4: return (static_cast<double>(splitmix(lin + 1000003ULL * static_cast<uint64_t>(c.seed)) >> 11) / 9007199254740992.0) * 2e3 - 1e3;
    case 5: return b + mono;
    case 6: return b;
    case 7: return static_cast<double>(splitmix(lin + 1000003ULL * static_cast<uint64_t>(c.seed)) % 4);
    case 8: return bowl * std::pow(10.0, -16.0 - 4.0 * std::fabs(c.coeffs[8])); // values of 1e-16..1e-20: distinct, but far below 1
    default:
        // distinct values a few ulps apart (near ties are not ties: the order of the returned steps is still defined)
        return (1.0 + std::fabs(c.coeffs[8])) * (1.0 + static_cast<double>(splitmix(lin + 1000003ULL * static_cast<uint64_t>(c.seed)) % 9) * 2.220446049250313e-16);
    }
}

verdict_t check_tuner(const tcase_t& c, ctx_t& ctx)
{
    const auto d = c.grids.size();
    if (c.tuner < 0 || c.tuner > 1 || c.max_evals < 10 || c.max_evals > 1000 || d < 1 || d > 3 || c.log10.size() != d ||
        c.coeffs.size() != 9 || c.landscape < 0 || c.landscape >= nlandscapes || c.seed < 0 || (!c.bad.empty() && c.bad.size() != d))
    {
        return verdict_t::discard("outside-the-quantifier");
    }
    for (size_t j = 0; j < d; ++j)
    {
        if (!valid_grid(c.grids[j], c.log10[j] != 0))
        {
            return verdict_t::discard("invalid-grid");
        }
    }
    for (const auto v : c.coeffs)
    {
        if (!(std::fabs(v) <= 1.0))
        {
            return verdict_t::discard("outside-the-quantifier");
        }
    }
    std::vector<long> bad;
    for (size_t j = 0; j < c.bad.size(); ++j)
    {
        bad.push_back(static_cast<long>(c.bad[j] < 0 ? -static_cast<long>(c.bad[j]) : c.bad[j]) % static_cast<long>(c.grids[j].size()));
    }
    const double bad_value = c.bad_kind == 0   ? std::numeric_limits<double>::quiet_NaN()
                             : c.bad_kind == 1 ? std::numeric_limits<double>::infinity()
                                               : -std::numeric_limits<double>::infinity();

    nano::verif::rng_state().store(0x9E3779B9ULL + static_cast<uint64_t>(c.seed));

    double pow3 = 1.0, grid_points = 1.0;
    for (size_t j = 0; j < d; ++j)
    {
        pow3 *= 3.0;
        grid_points *= static_cast<double>(c.grids[j].size());
    }

    // ---- the recording callback (reference model of the history) ----
    std::map<std::vector<long>, double> seen;           // evaluated point -> value returned
    std::string                         fault_sig, fault_msg;
    bool                                nonfinite_returned = false;
    long                                batches            = 0;
    const auto                          fault              = [&](const char* sig, std::string msg)
    {
        if (fault_sig.empty())
        {
            fault_sig = sig;
            fault_msg = std::move(msg);
        }
    };
    const nano::tuner_callback_t callback = [&](const nano::tensor2d_t& params)
    {
        ++batches;
        const auto      rows = params.size<0>();
        nano::tensor1d_t values(rows);
        if (nonfinite_returned)
        {
            fault("C13/tuner/continues-after-non-finite-value", cat("batch ", batches, " requested after a non-finite value was returned"));
        }
        if (params.size<1>() != static_cast<tensor_size_t>(d))
        {
            fault("C13/tuner/row-width", cat("rows of ", params.size<1>(), " values for ", d, " grids"));
            values.full(0.0);
            return values;
        }
        for (tensor_size_t r = 0; r < rows; ++r)
        {
            std::vector<long> idx(d, -1);
            bool              on_grid = true;
            for (size_t j = 0; j < d; ++j)
            {
                const auto  v    = params(r, static_cast<tensor_size_t>(j));
                const auto& grid = c.grids[j];
                const auto  it   = std::find(grid.begin(), grid.end(), v);
                if (it == grid.end())
                {
                    on_grid = false;
                    fault("C13/tuner/off-grid-value", cat("batch ", batches, " row ", r, " column ", j, ": ", v, " is not a value of grid ", j));
                }
                else
                {
                    idx[j] = static_cast<long>(it - grid.begin());
                }
            }
            if (!on_grid)
            {
                values(r) = 0.0;
                continue;
            }
            const auto value = (!bad.empty() && idx == bad) ? bad_value : landscape(c, idx);
            if (!seen.emplace(idx, value).second)
            {
                std::string at;
                for (const auto i : idx)
                {
                    at += (at.empty() ? "" : ",") + std::to_string(i);
                }
                fault("C13/tuner/evaluated-twice", cat("grid point (", at, ") requested again in batch ", batches));
            }
            nonfinite_returned = nonfinite_returned || !std::isfinite(value);
            values(r)          = value;
        }
        return values;
    };

    auto tuner = nano::tuner_t::all().get(tuner_ids[c.tuner]);
    if (!tuner)
    {
        return verdict_t::violation("C13/harness/no-such-tuner", tuner_ids[c.tuner]);
    }
    nano::tuner_steps_t steps;
    bool                thrown = false;
    std::string         what;
    try
    {
        tuner->parameter("tuner::max_evals") = c.max_evals;
        const auto spaces                    = make_spaces(c.grids, c.log10);
        // half of the cases run a COPY of the configured object (as ml::params_t and per-thread copies do); derived from generated data, so that old replay files keep their meaning
        const bool via_clone = (c.max_evals % 2) == 1;
        ctx.label_if(via_clone, "tuner-used-through-clone");
        const auto cloned = via_clone ? tuner->clone() : nano::rtuner_t{};
        steps             = (via_clone ? *cloned : *tuner).optimize(spaces, callback, nano::make_null_logger());
    }
    catch (const std::exception& e)
    {
        thrown = true;
        what   = e.what();
    }

    // classes
    ctx.label(std::string("tuner-") + tuner_ids[c.tuner]);
    ctx.label("grids-" + std::to_string(d));
    ctx.label(std::string("landscape-") + landscape_names[c.landscape]);
    ctx.label(c.max_evals <= 20 ? "max_evals<=20" : c.max_evals <= 100 ? "max_evals<=100" : "max_evals>100");
    ctx.label_if(std::find_if(c.log10.begin(), c.log10.end(), [](int v) { return v != 0; }) != c.log10.end(), "log10-grid");
    ctx.label_if(!bad.empty() && nonfinite_returned, "non-finite-point-hit");
    ctx.label_if(!bad.empty() && !nonfinite_returned, "non-finite-point-missed");
    ctx.label_if(static_cast<double>(seen.size()) >= static_cast<double>(c.max_evals), "budget-reached");
    ctx.label(seen.size() < 10 ? "evaluations<10" : seen.size() < 50 ? "evaluations<50" : seen.size() < 200 ? "evaluations<200" : "evaluations>=200");
    ctx.label_if(static_cast<double>(seen.size()) == grid_points, "whole-grid-evaluated");
    ctx.maximum("evaluations / (max_evals + 3^d)", static_cast<double>(seen.size()) / (static_cast<double>(c.max_evals) + pow3));

    // clauses that hold for every history, also one that ends in the exception
    if (!fault_sig.empty())
    {
        return verdict_t::violation(fault_sig, fault_msg);
    }
    if (static_cast<double>(seen.size()) > static_cast<double>(c.max_evals) + pow3)
    {
        return verdict_t::violation("C13/tuner/too-many-evaluations",
                                    cat(seen.size(), " points evaluated, max_evals=", c.max_evals, " 3^d=", pow3));
    }
    if (thrown)
    {
        if (nonfinite_returned)
        {
            ctx.label("rejected-non-finite");
            ctx.nontrivial = seen.size() >= 5;
            return verdict_t::ok();
        }
        if (c.tuner == 1 && surrogate_failure(what))
        {
            return verdict_t::discard("surrogate-model-fit-failed");
        }
        return verdict_t::violation("C13/tuner/exception", what);
    }
    if (nonfinite_returned)
    {
        return verdict_t::violation("C13/tuner/non-finite-value-accepted", cat("a value ", bad_value, " was returned, optimize returned ", steps.size(), " steps"));
    }

    // the returned steps are the evaluated points, with their values, sorted, minimum first
    if (steps.size() != seen.size())
    {
        return verdict_t::violation("C13/tuner/steps-vs-evaluations", cat(steps.size(), " steps returned, ", seen.size(), " points evaluated"));
    }
    std::set<std::vector<long>> returned;
    double                      minimum = std::numeric_limits<double>::infinity();
    std::set<uint64_t>          distinct;
    for (const auto& kv : seen)
    {
        minimum = std::min(minimum, kv.second);
        distinct.insert(bits_of(kv.second));
    }
    for (size_t s = 0; s < steps.size(); ++s)
    {
        const auto& step = steps[s];
        if (step.m_igrid.size() != static_cast<tensor_size_t>(d) || step.m_param.size() != static_cast<tensor_size_t>(d))
        {
            return verdict_t::violation("C13/tuner/step-shape", cat("step ", s, ": igrid of ", step.m_igrid.size(), " param of ", step.m_param.size()));
        }
        std::vector<long> idx(d);
        for (size_t j = 0; j < d; ++j)
        {
            idx[j] = static_cast<long>(step.m_igrid(static_cast<tensor_size_t>(j)));
            if (idx[j] < 0 || idx[j] >= static_cast<long>(c.grids[j].size()))
            {
                return verdict_t::violation("C13/tuner/step-index-out-of-grid", cat("step ", s, " grid ", j, ": index ", idx[j]));
            }
            if (step.m_param(static_cast<tensor_size_t>(j)) != c.grids[j][static_cast<size_t>(idx[j])])
            {
                return verdict_t::violation("C13/tuner/step-param-vs-index",
                                            cat("step ", s, " grid ", j, ": param ", step.m_param(static_cast<tensor_size_t>(j)), " index ", idx[j],
                                                " grid value ", c.grids[j][static_cast<size_t>(idx[j])]));
            }
        }
        const auto it = seen.find(idx);
        if (it == seen.end())
        {
            return verdict_t::violation("C13/tuner/step-never-evaluated", cat("step ", s, " was never requested from the callback"));
        }
        if (!returned.insert(idx).second)
        {
            return verdict_t::violation("C13/tuner/step-duplicated", cat("step ", s, " appears twice"));
        }
        if (bits_of(step.m_value) != bits_of(it->second))
        {
            return verdict_t::violation("C13/tuner/step-value", cat("step ", s, ": value ", step.m_value, " callback returned ", it->second));
        }
        if (s > 0 && !(steps[s - 1].m_value <= step.m_value))
        {
            return verdict_t::violation("C13/tuner/not-sorted", cat("step ", s - 1, " value ", steps[s - 1].m_value, " > step ", s, " value ", step.m_value));
        }
    }
    if (!steps.empty() && steps.front().m_value != minimum)
    {
        return verdict_t::violation("C13/tuner/first-is-not-minimum", cat("first step ", steps.front().m_value, " minimum observed ", minimum));
    }
    if (steps.empty())
    {
        return verdict_t::violation("C13/tuner/no-evaluation", "optimize returned no step");
    }
    ctx.label_if(distinct.size() < seen.size(), "tied-values");
    ctx.nontrivial = seen.size() >= 5 && distinct.size() >= 2;
    return verdict_t::ok();
}

rc::Gen<tcase_t> gen_tuner()
{
    const auto max_evals = rc::gen::oneOf(gen::range<int>(10, 30), gen::range<int>(10, 120), gen::range<int>(10, 1000));
    return rc::gen::mapcat(
        rc::gen::tuple(gen::range<int>(0, 1), gen::range<size_t>(1, 3), max_evals),
        [](const std::tuple<int, size_t, int>& head)
        {
            const auto tuner = std::get<0>(head);
            const auto d     = std::get<1>(head);
            const auto evals = std::get<2>(head);
            const auto grid  = rc::gen::mapcat(gen::chance(35),
                                               [](const bool log10)
                                               {
                                                  return rc::gen::map(rc::gen::oneOf(gen_grid(log10, 2, 6), gen_grid(log10, 2, 31)),
                                                                      [=](grid_t g) { return std::make_pair(log10, std::move(g)); });
                                              });
            return rc::gen::map(
                rc::gen::tuple(rc::gen::container<std::vector<std::pair<bool, grid_t>>>(d, grid), gen::range<int>(0, nlandscapes - 1),
                               rc::gen::container<std::vector<double>>(9, gen::sym(1.0)), gen::range<int>(0, 1 << 20), gen::chance(30),
                               rc::gen::container<std::vector<int>>(d, gen::range<int>(0, 30)), gen::range<int>(0, 2), gen::chance(50)),
                [=](const std::tuple<std::vector<std::pair<bool, grid_t>>, int, std::vector<double>, int, bool, std::vector<int>, int, bool>& t)
                {
                    tcase_t c;
                    c.tuner     = tuner;
                    c.max_evals = evals;
                    for (const auto& lg : std::get<0>(t))
                    {
                        c.log10.push_back(lg.first ? 1 : 0);
                        c.grids.push_back(lg.second);
                    }
                    c.landscape = std::get<1>(t);
                    c.coeffs    = std::get<2>(t);
                    c.seed      = std::get<3>(t);
                    if (std::get<4>(t))
                    {
                        c.bad = std::get<5>(t);
                        if (std::get<7>(t))
                        {
                            // near the centre of the grid, where both tuners start
                            for (size_t j = 0; j < c.bad.size(); ++j)
                            {
                                c.bad[j] = static_cast<int>(c.grids[j].size() / 2) + (c.bad[j] % 3) - 1;
                                c.bad[j] = std::max(0, std::min(c.bad[j], static_cast<int>(c.grids[j].size()) - 1));
                            }
                        }
                    }
                    c.bad_kind = std::get<6>(t);
                    return c;
                });
        });
}

// ---- sub-check: ml::tune -----------------------------------------------------------------------------------------------
struct mcase_t
{
    std::vector<int>    samples;  // distinct sample indices
    int                 splitter{0}; // 0 k-fold, 1 random
    int                 folds{2};
    int                 split_seed{42};
    int                 train_per{80};
    int                 tuner{0};
    int                 max_evals{10};
    std::vector<grid_t> grids;    // 0..2 parameter spaces
    std::vector<int>    log10;
    std::vector<double> coeffs;   // 6 numbers in [-1, 1]
    int                 levels{1000};
    int                 threads{1};
    std::vector<int>    delays;   // schedule perturbation (empty: hook off)

    template <class A>
    void io(A& a)
    {
        a("samples", samples);
        a("splitter", splitter);
        a("folds", folds);
        a("split_seed", split_seed);
        a("train_per", train_per);
        a("tuner", tuner);
        a("max_evals", max_evals);
        a("grids", grids);
        a("log10", log10);
        a("coeffs", coeffs);
        a("levels", levels);
        a("threads", threads);
        a("delays", delays);
    }
};

// schedule perturbation at the pool's hook points: table driven, no clock, no RNG
std::vector<int>      g_delays;
std::atomic<uint64_t> g_delay_cursor{0};

constexpr uint64_t max_perturbations = 2000; // per case: keeps a run short on a loaded machine

void schedule_hook(int, const void*, std::size_t)
{
    const auto n = g_delays.size();
    if (n == 0)
    {
        return;
    }
    const auto k = g_delay_cursor.fetch_add(1, std::memory_order_relaxed);
    if (k >= max_perturbations)
    {
        return;
    }
    const auto delay = g_delays[k % n];
    if (delay <= 0)
    {
        return;
    }
    if (delay == 1)
    {
        std::this_thread::yield();
    }
    else
    {
        volatile int sink = 0;
        for (int i = 0; i < delay * 40; ++i)
        {
            sink = sink + i;
        }
    }
}

struct hook_guard_t
{
    explicit hook_guard_t(const std::vector<int>& delays)
    {
        g_delays = delays;
        g_delay_cursor.store(0);
        nano::verif::callback().store(delays.empty() ? nullptr : &schedule_hook, std::memory_order_release);
    }

    ~hook_guard_t()
    {
        nano::verif::callback().store(nullptr, std::memory_order_release);
        g_delays.clear();
    }

    hook_guard_t(const hook_guard_t&)            = delete;
    hook_guard_t& operator=(const hook_guard_t&) = delete;
};

// ml::tune creates one log file per (trial, fold) in $TMPDIR: tens of files per case, which is slow on a disk-backed
// directory.  Use a per-process directory on tmpfs when there is one (removed at exit; the files are removed per case).
std::string g_scratch;

void use_fast_scratch_dir()
{
    static bool done = false;
    if (done)
    {
        return;
    }
    done = true;
    std::error_code ec;
    if (std::filesystem::is_directory("/dev/shm", ec))
    {
        const auto dir = "/dev/shm/verif-c13." + std::to_string(static_cast<long>(::getpid()));
        if (std::filesystem::create_directories(dir, ec) || std::filesystem::is_directory(dir, ec))
        {
            g_scratch = dir;
            ::setenv("TMPDIR", dir.c_str(), 1);
            std::atexit(
                []
                {
                    std::error_code ignored;
                    std::filesystem::remove_all(g_scratch, ignored);
                });
        }
    }
}

std::vector<long> to_vector(const nano::indices_t& indices)
{
    std::vector<long> out;
    for (tensor_size_t i = 0; i < indices.size(); ++i)
    {
        out.push_back(static_cast<long>(indices(i)));
    }
    return out;
}

struct call_t
{
    std::vector<double> params;
    std::vector<long>   train, valid;
    nano::tensor2d_t    train_values, valid_values; // what the callback returned
    uint64_t            payload{0};
};

verdict_t check_tune(const mcase_t& c, ctx_t& ctx)
{
    const auto d = c.grids.size();
    const auto n = c.samples.size();
    if (n < 10 || n > 400 || c.splitter < 0 || c.splitter > 1 || c.folds < 2 || c.folds > 10 || c.split_seed < 0 || c.split_seed > 1024 ||
        c.train_per < 10 || c.train_per > 90 || c.tuner < 0 || c.tuner > 1 || c.max_evals < 10 || c.max_evals > 1000 || d > 2 ||
        c.log10.size() != d || c.coeffs.size() != 6 || c.levels < 1 || (c.threads != 1 && c.threads != 2 && c.threads != 16) ||
        c.delays.size() > 4096)
    {
        return verdict_t::discard("outside-the-quantifier");
    }
    {
        std::set<int> distinct(c.samples.begin(), c.samples.end());
        if (distinct.size() != n || *distinct.begin() < 0)
        {
            return verdict_t::discard("samples-not-distinct");
        }
    }
    for (size_t j = 0; j < d; ++j)
    {
        if (!valid_grid(c.grids[j], c.log10[j] != 0))
        {
            return verdict_t::discard("invalid-grid");
        }
    }
    for (const auto v : c.coeffs)
    {
        if (!(std::fabs(v) <= 1.0))
        {
            return verdict_t::discard("outside-the-quantifier");
        }
    }

    use_fast_scratch_dir();
    nano::verif::rng_state().store(0x51ED270BULL + static_cast<uint64_t>(c.split_seed));
    ::setenv("NANO_VERIF_MAX_THREADS", std::to_string(c.threads).c_str(), 1);

    nano::indices_t samples(static_cast<tensor_size_t>(n));
    for (size_t i = 0; i < n; ++i)
    {
        samples(static_cast<tensor_size_t>(i)) = c.samples[i];
    }

    // deterministic outputs: level(params) + noise(sample, fold); multiples of 1/64, so that sums are exact
    // (the four tensors order the trials differently, so that an optimum taken from the wrong tensor shows)
    const auto level_of = [&](const std::vector<double>& params, const size_t centre)
    {
        double bowl = 0.0;
        for (size_t j = 0; j < d; ++j)
        {
            const auto& grid = c.grids[j];
            const auto  u    = (params[j] - grid.front()) / (grid.back() - grid.front());
            const auto  a    = 0.5 + 2.0 * std::fabs(c.coeffs[j]);
            const auto  cj   = 0.5 * (c.coeffs[centre + j] + 1.0);
            bowl += a * (u - cj) * (u - cj);
        }
        // bowl in [0, 5]: quantise into `levels` steps, then onto multiples of 1/64
        const auto q = std::floor(bowl / 5.0 * static_cast<double>(c.levels));
        return std::floor(q / static_cast<double>(c.levels) * 5.0 * 64.0) / 64.0;
    };
    const auto fold_key = [](const std::vector<long>& valid)
    {
        uint64_t key = 1469598103934665603ULL;
        for (const auto v : valid)
        {
            key = (key ^ static_cast<uint64_t>(v)) * 1099511628211ULL;
        }
        return key;
    };
    const auto payload_of = [&](const std::vector<double>& params, const uint64_t key)
    {
        uint64_t h = key;
        for (const auto p : params)
        {
            h = splitmix(h ^ bits_of(p));
        }
        return h;
    };
    const auto values_of = [&](const std::vector<double>& params, const uint64_t key, const std::vector<long>& ids, const int split)
    {
        // row 0: errors, row 1: losses; split 0: training, 1: validation
        nano::tensor2d_t values(2, static_cast<tensor_size_t>(ids.size()));
        const auto       level1 = level_of(params, 2);
        const auto       level2 = level_of(params, 4);
        const auto       offset = static_cast<double>(key % 97) / 4.0;
        for (size_t i = 0; i < ids.size(); ++i)
        {
            const auto s = static_cast<uint64_t>(ids[i]);
            values(0, static_cast<tensor_size_t>(i)) =
                (split == 0 ? 1000.0 + (5.0 - level1) : level1) + offset + static_cast<double>((s * 7 + key) % 16) / 64.0;
            values(1, static_cast<tensor_size_t>(i)) =
                (split == 0 ? 2000.0 + (5.0 - level2) : 3000.0 + level2) + offset + static_cast<double>((s * 5 + key) % 32) / 64.0;
        }
        return values;
    };

    // the recording callback (called from the pool's threads)
    std::mutex          mutex;
    std::vector<call_t> calls;
    const nano::ml::tune_callback_t callback = [&](const nano::indices_t& train, const nano::indices_t& valid, nano::tensor1d_cmap_t params,
                                                   const std::any&, const nano::logger_t&)
    {
        call_t call;
        for (tensor_size_t j = 0; j < params.size(); ++j)
        {
            call.params.push_back(params(j));
        }
        call.train         = to_vector(train);
        call.valid         = to_vector(valid);
        const auto key     = fold_key(call.valid);
        call.payload       = payload_of(call.params, key);
        call.train_values  = values_of(call.params, key, call.train, 0);
        call.valid_values  = values_of(call.params, key, call.valid, 1);
        auto       result  = std::make_tuple(call.train_values, call.valid_values, std::any(call.payload));
        {
            const std::scoped_lock lock(mutex);
            calls.push_back(std::move(call));
        }
        return result;
    };

    // configuration
    nano::ml::params_t fit_params;
    nano::splitter_t::splits_t splits;
    nano::ml::result_t         result;
    bool                       thrown = false;
    std::string                what;
    try
    {
        auto splitter                             = nano::splitter_t::all().get(c.splitter == 0 ? "k-fold" : "random");
        splitter->parameter("splitter::folds")    = c.folds;
        splitter->parameter("splitter::seed")     = c.split_seed;
        if (c.splitter == 1)
        {
            splitter->parameter("splitter::random::train_per") = c.train_per;
        }
        auto tuner                           = nano::tuner_t::all().get(tuner_ids[c.tuner]);
        tuner->parameter("tuner::max_evals") = c.max_evals;
        fit_params.splitter(*splitter).tuner(*tuner).logger(nano::make_null_logger());
        splits = fit_params.splitter().split(samples);
    }
    catch (const std::exception& e)
    {
        return verdict_t::violation("C13/harness/configuration", e.what());
    }
    bool single_sample_fold = false;
    for (const auto& split : splits)
    {
        if (split.first.size() == 0 || split.second.size() == 0)
        {
            return verdict_t::discard("empty-training-or-validation-set");
        }
        single_sample_fold = single_sample_fold || split.first.size() == 1 || split.second.size() == 1;
    }
    try
    {
        const hook_guard_t guard(c.delays);
        result = nano::ml::tune("c13", samples, fit_params, make_spaces(c.grids, c.log10), callback);
    }
    catch (const std::exception& e)
    {
        thrown = true;
        what   = e.what();
    }
    // the per-(trial, fold) log files land in $TMPDIR
    const auto cleanup = [&]
    {
        for (tensor_size_t trial = 0; trial < result.trials(); ++trial)
        {
            for (tensor_size_t fold = 0; fold < result.folds(); ++fold)
            {
                std::error_code ec;
                std::filesystem::remove(result.log_path(trial, fold), ec);
            }
        }
    };

    ctx.label(std::string("tuner-") + tuner_ids[c.tuner]);
    ctx.label(c.splitter == 0 ? "splitter-k-fold" : "splitter-random");
    ctx.label("spaces-" + std::to_string(d));
    ctx.label("threads-" + std::to_string(c.threads));
    ctx.label_if(!c.delays.empty(), "schedule-perturbed");
    ctx.label_if(c.levels <= 4, "few-levels(ties)");
    ctx.label_if(n % static_cast<size_t>(c.folds) != 0, "samples-not-divisible-by-folds");
    ctx.label_if(single_sample_fold, "fold-with-a-single-sample");

    if (thrown)
    {
        if (c.tuner == 1 && surrogate_failure(what))
        {
            // the trials that were started cannot be enumerated (no result): their log files stay in the scratch $TMPDIR
            return verdict_t::discard("surrogate-model-fit-failed");
        }
        return verdict_t::violation("C13/tune/exception", what);
    }

    const auto fail = [&](const char* sig, std::string msg)
    {
        cleanup();
        return verdict_t::violation(sig, std::move(msg));
    };

    const auto folds  = result.folds();
    const auto trials = result.trials();
    if (folds != static_cast<tensor_size_t>(c.folds) || static_cast<size_t>(folds) != splits.size())
    {
        return fail("C13/tune/folds", cat("result has ", folds, " folds, the splitter ", splits.size()));
    }
    if (trials < 1)
    {
        return fail("C13/tune/no-trial", "the result has no trial");
    }
    // folds with identical contents are interchangeable for the callback: group them
    std::vector<std::pair<std::vector<long>, std::vector<long>>> fold_sets;
    for (const auto& split : splits)
    {
        fold_sets.emplace_back(to_vector(split.first), to_vector(split.second));
        if (split.first.size() == 0 || split.second.size() == 0)
        {
            cleanup();
            return verdict_t::discard("empty-training-or-validation-set");
        }
    }
    std::vector<size_t> group(static_cast<size_t>(folds));
    bool                identical_folds = false;
    for (size_t f = 0; f < fold_sets.size(); ++f)
    {
        group[f] = f;
        for (size_t g = 0; g < f; ++g)
        {
            if (fold_sets[g] == fold_sets[f])
            {
                group[f]        = group[g];
                identical_folds = true;
                break;
            }
        }
    }
    ctx.label_if(identical_folds, "identical-folds");

    // every call carries the indices of one fold of the splitter
    std::map<std::pair<std::vector<double>, size_t>, std::vector<const call_t*>> by_key; // (params, fold group) -> calls
    for (const auto& call : calls)
    {
        size_t found = fold_sets.size();
        for (size_t f = 0; f < fold_sets.size(); ++f)
        {
            if (fold_sets[f].first == call.train && fold_sets[f].second == call.valid)
            {
                found = group[f];
                break;
            }
        }
        if (found == fold_sets.size())
        {
            return fail("C13/tune/indices-not-a-fold-of-the-splitter",
                        cat("a call received ", call.train.size(), " training and ", call.valid.size(), " validation indices that match no fold"));
        }
        by_key[{call.params, found}].push_back(&call);
    }
    if (calls.size() != static_cast<size_t>(trials * folds))
    {
        return fail("C13/tune/number-of-calls", cat(calls.size(), " callback calls for ", trials, " trials x ", folds, " folds"));
    }

    // per (trial, fold): exactly one call, the stored statistics and payload are that call's
    std::vector<long double> trial_means(static_cast<size_t>(trials), 0.0L);
    long double              magnitude = 0.0L;
    std::set<std::vector<double>> distinct_params;
    for (tensor_size_t trial = 0; trial < trials; ++trial)
    {
        std::vector<double> params;
        const auto          stored = result.params(trial);
        if (stored.size() != static_cast<tensor_size_t>(d))
        {
            return fail("C13/tune/params-shape", cat("trial ", trial, " has ", stored.size(), " parameters"));
        }
        for (tensor_size_t j = 0; j < stored.size(); ++j)
        {
            params.push_back(stored(j));
        }
        if (!distinct_params.insert(params).second)
        {
            return fail("C13/tune/trial-repeated", cat("trial ", trial, " repeats the parameters of an earlier trial"));
        }
        for (tensor_size_t fold = 0; fold < folds; ++fold)
        {
            const auto g  = group[static_cast<size_t>(fold)];
            const auto it = by_key.find({params, g});
            size_t     group_size = 0;
            for (const auto x : group)
            {
                group_size += x == g ? 1 : 0;
            }
            if (it == by_key.end() || it->second.size() != group_size)
            {
                return fail("C13/tune/calls-per-trial-fold", cat("trial ", trial, " fold ", fold, ": ", it == by_key.end() ? 0 : it->second.size(),
                                                                 " calls, expected ", group_size));
            }
            const auto& call = *it->second.front();

            // statistics stored under (trial, fold)
            const nano::tensor2d_t* tensors[2] = {&call.train_values, &call.valid_values};
            for (int split = 0; split < 2; ++split)
            {
                for (int kind = 0; kind < 2; ++kind)
                {
                    const auto st = result.stats(trial, fold, split == 0 ? nano::ml::split_type::train : nano::ml::split_type::valid,
                                                 kind == 0 ? nano::ml::value_type::errors : nano::ml::value_type::losses);
                    const auto& values = *tensors[split];
                    const auto  count  = values.size<1>();
                    long double sum = 0.0L, lo = values(kind, 0), hi = values(kind, 0);
                    for (tensor_size_t i = 0; i < count; ++i)
                    {
                        const long double v = values(kind, i);
                        sum += v;
                        lo = std::min(lo, v);
                        hi = std::max(hi, v);
                    }
                    const auto mean = sum / static_cast<long double>(count);
                    const auto tol  = 1e3L * eps * std::fabs(mean);
                    const char* names[] = {"train/errors", "train/losses", "valid/errors", "valid/losses"};
                    if (st.m_count != static_cast<double>(count))
                    {
                        return fail("C13/tune/stats-not-of-this-trial-fold",
                                    cat("trial ", trial, " fold ", fold, " ", names[2 * split + kind], ": count ", st.m_count, " expected ", count));
                    }
                    if (!(std::fabs(static_cast<long double>(st.m_mean) - mean) <= tol))
                    {
                        return fail("C13/tune/stats-not-of-this-trial-fold",
                                    cat("trial ", trial, " fold ", fold, " ", names[2 * split + kind], ": mean ", st.m_mean, " expected ",
                                        static_cast<double>(mean)));
                    }
                    if (!(st.m_per01 >= lo && st.m_per99 <= hi && st.m_per50 >= lo && st.m_per50 <= hi))
                    {
                        return fail("C13/tune/stats-not-of-this-trial-fold",
                                    cat("trial ", trial, " fold ", fold, " ", names[2 * split + kind], ": percentiles outside [min, max] of the returned values"));
                    }
                    if (split == 1 && kind == 0)
                    {
                        trial_means[static_cast<size_t>(trial)] += mean / static_cast<long double>(folds);
                        magnitude = std::max(magnitude, std::fabs(mean));
                    }
                }
            }
            // payload stored under (trial, fold)
            const auto& extra = result.extra(trial, fold);
            const auto* value = std::any_cast<uint64_t>(&extra);
            if (value == nullptr || *value != call.payload)
            {
                return fail("C13/tune/extra-not-of-this-trial-fold",
                            cat("trial ", trial, " fold ", fold, ": payload ", value == nullptr ? 0 : *value, " expected ", call.payload));
            }
        }
    }

    // the optimum: any trial attaining the minimum mean validation error
    const auto optimum = result.optimum_trial();
    if (optimum < 0 || optimum >= trials)
    {
        return fail("C13/tune/optimum-out-of-range", cat("optimum_trial()=", optimum, " trials=", trials));
    }
    const auto best = *std::min_element(trial_means.begin(), trial_means.end());
    const auto tol  = 1e3L * eps * std::max(magnitude, 1.0L);
    const auto gap  = trial_means[static_cast<size_t>(optimum)] - best;
    size_t     ties = 0;
    for (const auto m : trial_means)
    {
        ties += (m - best <= tol) ? 1 : 0;
    }
    ctx.label_if(ties > 1, "tied-optimum");
    ctx.maximum("trials", static_cast<double>(trials));
    cleanup();
    if (gap > 10 * tol)
    {
        return verdict_t::violation("C13/tune/optimum-is-not-the-minimum",
                                    cat("optimum_trial()=", optimum, " mean validation error ", static_cast<double>(trial_means[static_cast<size_t>(optimum)]),
                                        " minimum over trials ", static_cast<double>(best)));
    }
    if (gap > tol)
    {
        return verdict_t::borderline("tune/optimum");
    }
    ctx.nontrivial = trials >= 2 && folds >= 2;
    return verdict_t::ok();
}

rc::Gen<mcase_t> gen_tune()
{
    const auto samples = rc::gen::mapcat(
        // 30 %: few samples, so that folds with a SINGLE validation (or training) sample occur (k-fold: #samples < 2 x folds)
        rc::gen::pair(rc::gen::mapcat(gen::chance(30), [](const bool few) { return few ? gen::range<size_t>(10, 24) : gen::range<size_t>(20, 120); }),
                      gen::range<int>(0, 2)),
        [](const std::pair<size_t, int>& ns)
        {
            // distinct indices: increasing with gaps; optionally reversed or interleaved
            return rc::gen::map(rc::gen::pair(gen::range<int>(0, 50), rc::gen::container<std::vector<int>>(ns.first, gen::range<int>(1, 4))),
                                [=](const std::pair<int, std::vector<int>>& sg)
                                {
                                    std::vector<int> out;
                                    auto             x = sg.first;
                                    for (const auto g : sg.second)
                                    {
                                        out.push_back(x);
                                        x += ns.second == 0 ? 1 : g;
                                    }
                                    if (ns.second == 2)
                                    {
                                        std::reverse(out.begin(), out.end());
                                    }
                                    return out;
                                });
        });
    const auto grid   = rc::gen::mapcat(gen::chance(35),
                                        [](const bool log10)
                                        { return rc::gen::map(gen_grid(log10, 2, 9), [=](grid_t g) { return std::make_pair(log10, std::move(g)); }); });
    const auto delays = rc::gen::mapcat(gen::range<size_t>(0, 3),
                                        [](const size_t style) -> rc::Gen<std::vector<int>>
                                        {
                                            if (style == 0)
                                            {
                                                return rc::gen::just(std::vector<int>{});
                                            }
                                            return rc::gen::mapcat(gen::range<size_t>(5, 64), [=](const size_t n)
                                                                   {
                                                                       return rc::gen::container<std::vector<int>>(
                                                                           n, style == 1 ? rc::gen::element(0, 0, 0, 0, 1)
                                                                                         : style == 2 ? rc::gen::element(0, 0, 1, 5, 20, 60) : gen::range<int>(0, 60));
                                                                   });
                                        });
    return rc::gen::mapcat(
        gen::range<size_t>(0, 2),
        [=](const size_t d)
        {
            return rc::gen::map(
                rc::gen::tuple(samples, rc::gen::tuple(gen::range<int>(0, 1), gen::range<int>(2, 10), gen::range<int>(0, 1024), gen::range<int>(10, 90)),
                               rc::gen::pair(gen::range<int>(0, 1), gen::range<int>(10, 40)), rc::gen::container<std::vector<std::pair<bool, grid_t>>>(d, grid),
                               rc::gen::container<std::vector<double>>(6, gen::sym(1.0)), rc::gen::element(1, 2, 3, 4, 16, 1000, 1000),
                               rc::gen::element(1, 2, 16), delays),
                [](const std::tuple<std::vector<int>, std::tuple<int, int, int, int>, std::pair<int, int>, std::vector<std::pair<bool, grid_t>>,
                                    std::vector<double>, int, int, std::vector<int>>& t)
                {
                    mcase_t c;
                    c.samples    = std::get<0>(t);
                    c.splitter   = std::get<0>(std::get<1>(t));
                    c.folds      = std::get<1>(std::get<1>(t));
                    c.split_seed = std::get<2>(std::get<1>(t));
                    c.train_per  = std::get<3>(std::get<1>(t));
                    c.tuner      = std::get<2>(t).first;
                    c.max_evals  = std::get<2>(t).second;
                    for (const auto& lg : std::get<3>(t))
                    {
                        c.log10.push_back(lg.first ? 1 : 0);
                        c.grids.push_back(lg.second);
                    }
                    c.coeffs  = std::get<4>(t);
                    c.levels  = std::get<5>(t);
                    c.threads = std::get<6>(t);
                    c.delays  = std::get<7>(t);
                    return c;
                });
        });
}
} // namespace

int main(int argc, char** argv)
{
    suite_t suite("C13");
    suite.add<tcase_t>("tuner", gen_tuner, check_tuner, 7.0);
    suite.add<mcase_t>("tune", gen_tune, check_tune, 1.0);
    return suite.main(argc, argv);
}
