// C11 — reference model of the gradient-boosting early-stopping monitor, written from the property statement
// (shared by c11_early_stopping.cpp, which drives the monitor directly, and c11_models.cpp, which applies it to the
// per-round statistics a fit reports).
#pragma once

#include <cmath>
#include <cstddef>
#include <limits>
#include <vector>

namespace verif::c11
{
constexpr double deps = std::numeric_limits<double>::epsilon();

// ---------------------------------------------------------------------------------------------------
// reference model (written from the statement, not from early_stopping.cpp)
//
// readings of what the statement leaves open (see notes/C11.md):
//   R1  a stop because the training error dropped below epsilon reports the stopping round itself (that round is
//       "accepted": the caller keeps all weak learners fitted so far);
//   R2  without validation samples there is nothing to compare: every round is accepted and only R1 can stop
//       (the "refitting" use documented in early_stopping.cpp).
// ---------------------------------------------------------------------------------------------------
enum class answer_t
{
    go,
    stop,
    ambiguous // a comparison is decided by the last bits of inexact arithmetic: the history ends here, uncounted
};

struct ref_monitor_t
{
    bool                has_best{false};
    long double         best{0.0L};
    std::vector<size_t> accepted; // rounds of the accepted improvements, increasing
    std::vector<double> snapshot; // per-sample (error | loss) values of the last accepted round
    bool                exact{false}; // all arithmetic on this history is exact in double precision

    size_t round() const { return accepted.empty() ? 0U : accepted.back(); }

    static bool undecided(long double lhs, long double rhs, long double scale, bool exact)
    {
        return !exact && std::fabs(lhs - rhs) <= 16.0L * static_cast<long double>(deps) * scale;
    }

    answer_t done(size_t r, long double train, long double valid, bool has_valid, long double eps, size_t patience,
                  const std::vector<double>& values)
    {
        const auto accept = [&]()
        {
            has_best = true;
            best     = valid;
            accepted.push_back(r);
            snapshot = values;
        };

        // "stops exactly when the training error drops below epsilon ..."
        if (undecided(train, eps, std::fabs(train) + eps, exact))
        {
            return answer_t::ambiguous;
        }
        if (train < eps)
        {
            accept(); // R1
            return answer_t::stop;
        }

        // "... an improvement larger than epsilon"
        if (!has_valid)
        {
            accept(); // R2
            return answer_t::go;
        }
        if (!has_best)
        {
            accept();
            return answer_t::go;
        }
        const auto improvement = best - valid;
        if (undecided(improvement, eps, std::fabs(best) + std::fabs(valid) + eps, exact))
        {
            return answer_t::ambiguous;
        }
        if (improvement > eps)
        {
            accept();
            return answer_t::go;
        }

        // "... or no validation improvement larger than epsilon was accepted in the last `patience` rounds":
        // the last `patience` rounds are r-patience+1 .. r
        bool recent = false;
        for (const auto a : accepted)
        {
            recent = recent || (a + patience > r);
        }
        return recent ? answer_t::go : answer_t::stop;
    }
};
} // namespace verif::c11
