// C16 — tensor indexing, slicing, reshaping, gathers, storage conversions and the summed-area table address
// exactly the right elements; no valid access touches memory outside the tensor (DESIGN.md section 5, C16).
//
// Built in the `asan` flavour: every tensor under test either owns an exactly-sized Eigen heap block or maps an
// exactly-sized `new T[size]` block (size 0: the one-past-the-end pointer of a 1-element block), so any access
// outside [data, data+size) aborts the case under AddressSanitizer.
//
// Oracle: the harness keeps a mirror (std::vector<T>) of what every cell must contain; positions are computed
// by the harness from its own row-major strides.  Element identity: every write goes through one access path
// (full indexing, linear indexing, vector/array/matrix/tensor view, slice, reshape) with values that identify
// the linear index, every read through all the other paths.  Address identity for all aliasing views.
//
// Sub-checks
//   sweep0..sweep7  deterministic enumeration of all (rank, shape, scalar type) combinations with every extent
//                   in 0..4 (rank 5: 0..3); each case = one combination, the check loops over all index tuples,
//                   prefixes, slices and reshape factorisations of that shape.  `--sub sweepK --cases N` with
//                   N >= #combinations/8 covers partition K completely, independent of the seed.
//   small           the same shapes drawn at random with random salt / gather lists / removal masks / reals
//   large           random shapes up to 1e5 elements (sampled slices and reshape targets)
//   stack           nano::stack of vectors / block matrices against a placement reference
#pragma once
#include "common.h"

#ifndef C16_RANK_MIN
    #error "define C16_RANK_MIN / C16_RANK_MAX / C16_SUFFIX before including c16_tensor.h"
#endif

#include <nano/tensor/algorithm.h>
#include <nano/tensor/integral.h>
#include <nano/tensor/stack.h>
#include <nano/tensor/tensor.h>

#include <array>
#include <limits>
#include <tuple>

using namespace verif;

namespace
{
using ts = nano::tensor_size_t;

template <size_t R>
using dims_t = nano::tensor_dims_t<R>;

struct fail_t
{
    std::string sig;
    std::string msg;
};

struct borderline_t
{
    std::string what;
};

// ---- helpers ---------------------------------------------------------------------------------
template <class T>
T val(const int64_t k, const unsigned salt)
{
    const auto x = static_cast<uint64_t>(k) + 7919ULL * static_cast<uint64_t>(salt);
    if constexpr (sizeof(T) == 1)
    {
        return static_cast<T>(static_cast<uint8_t>(x & 0xFFU));
    }
    else if constexpr (sizeof(T) == 2)
    {
        return static_cast<T>(static_cast<uint16_t>(x & 0xFFFFU));
    }
    else
    {
        return static_cast<T>(x & 0xFFFFFFU);
    }
}

inline uint64_t splitmix(uint64_t x)
{
    x += 0x9E3779B97F4A7C15ULL;
    x = (x ^ (x >> 30)) * 0xBF58476D1CE4E5B9ULL;
    x = (x ^ (x >> 27)) * 0x94D049BB133111EBULL;
    return x ^ (x >> 31);
}

// exactly-sized heap block; size 0: one-past-the-end of a 1-element block (any touch is an ASan error)
template <class T>
class block_t
{
public:
    explicit block_t(const ts size)
        : m_size(size)
        , m_alloc(new T[static_cast<size_t>(size > 0 ? size : 1)])
    {
    }

    T* data() const { return m_size > 0 ? m_alloc.get() : m_alloc.get() + 1; }

    ts size() const { return m_size; }

private:
    ts                   m_size{0};
    std::unique_ptr<T[]> m_alloc;
};

// calls f(idx) for every tuple idx of length P with 0 <= idx[j] < dims[j], in lexicographic (row-major) order
template <size_t P, size_t R, class F>
void for_each_tuple(const dims_t<R>& dims, F&& f)
{
    static_assert(P <= R);
    std::array<ts, P> idx{};
    for (size_t j = 0; j < P; ++j)
    {
        if (dims[j] <= 0)
        {
            return;
        }
    }
    for (;;)
    {
        f(idx);
        size_t j = P;
        for (;;)
        {
            if (j == 0)
            {
                return;
            }
            --j;
            if (++idx[j] < dims[j])
            {
                break;
            }
            idx[j] = 0;
        }
    }
}

template <size_t K>
void factorisations(const ts n, const size_t pos, std::array<ts, K>& cur, std::vector<std::array<ts, K>>& out)
{
    if (pos + 1 == K)
    {
        cur[pos] = n;
        out.push_back(cur);
        return;
    }
    for (ts f = 1; f <= n; ++f)
    {
        if (n % f == 0)
        {
            cur[pos] = f;
            factorisations<K>(n / f, pos + 1, cur, out);
        }
    }
}

inline std::vector<ts> prime_factors(ts n)
{
    std::vector<ts> out;
    for (ts p = 2; p * p <= n; ++p)
    {
        while (n % p == 0)
        {
            out.push_back(p);
            n /= p;
        }
    }
    if (n > 1)
    {
        out.push_back(n);
    }
    return out;
}

template <size_t R>
std::string shape_string(const dims_t<R>& dims)
{
    std::string s;
    for (size_t i = 0; i < R; ++i)
    {
        s += (i ? "x" : "") + std::to_string(dims[i]);
    }
    return s;
}

// what to do beyond the fixed programme
struct plan_t
{
    bool                           exhaustive{true}; // all slices, all reshape factorisations, naive integral reference
    unsigned                       salt{0};
    bool                           reals{false};     // integral of floating types: non-dyadic inputs (tolerance compare)
    std::vector<std::pair<ts, ts>> slices;           // extra first-axis slices [b, e) (already inside the domain)
    std::vector<int>               mix;              // distributes the prime factors of size() over reshape targets
    std::vector<std::vector<ts>>   gathers;          // first-axis index lists (inside the domain, non-empty)
    std::vector<std::vector<int>>  masks;            // remove_if masks over the first axis
};

// failure reporting is kept out of line and free of templates (the checks are instantiated for 38 (type, rank) pairs)
class reporter_t
{
public:
    reporter_t(const char* type, std::string shape, const size_t rank)
        : m_type(type)
        , m_shape(std::move(shape))
        , m_rank(rank)
    {
    }

    template <size_t P>
    void at(const std::array<ts, P>& idx)
    {
        m_at_len = P;
        for (size_t j = 0; j < P; ++j)
        {
            m_at[j] = idx[j];
        }
    }

    void at_none() { m_at_len = 0; }

    template <class... A>
    [[noreturn]] void fail(const char* sig, const char* what, const A... a) const
    {
        const double v[] = {static_cast<double>(a)..., 0.0};
        raise(sig, what, v, sizeof...(a));
    }

protected:
    [[noreturn]] __attribute__((noinline)) void raise(const char* sig, const char* what, const double* v, const size_t n) const
    {
        std::string at;
        if (m_at_len > 0)
        {
            at = " at (";
            for (size_t j = 0; j < m_at_len; ++j)
            {
                at += (j ? "," : "") + std::to_string(m_at[j]);
            }
            at += ")";
        }
        std::string nums;
        for (size_t i = 0; i < n; ++i)
        {
            nums += cat(i ? ", " : " [", v[i]);
        }
        throw fail_t{std::string("C16/") + sig, cat(m_storage, '<', m_type, ',', m_rank, "> dims=", m_shape, ": ", what, at, nums, n ? "]" : "")};
    }

    const char*       m_type;
    std::string       m_shape;
    size_t            m_rank;
    const char*       m_storage{"mem"};
    std::array<ts, 5> m_at{};
    size_t            m_at_len{0};
};

// REQ(condition, signature, what, numbers...): numbers are (got, expected, ...) as the message says
#define REQ(cond, sig, ...)                                                                                            \
    do                                                                                                                 \
    {                                                                                                                  \
        if (!(cond))                                                                                                   \
        {                                                                                                              \
            this->fail(sig, __VA_ARGS__);                                                                              \
        }                                                                                                              \
    } while (false)

// ---- the checker for one (scalar type, rank, shape) ------------------------------------------------
template <class T, size_t R>
class checker_t : public reporter_t
{
public:
    using tmem  = nano::tensor_mem_t<T, R>;
    using tmap  = nano::tensor_map_t<T, R>;
    using tcmap = nano::tensor_cmap_t<T, R>;

    checker_t(const dims_t<R>& dims, const plan_t& plan, const char* type)
        : reporter_t(type, shape_string(dims), R)
        , m_dims(dims)
        , m_plan(plan)
        , m_salt(plan.salt)
    {
        m_stride[R - 1] = 1;
        for (size_t i = R - 1; i > 0; --i)
        {
            m_stride[i - 1] = m_stride[i] * m_dims[i];
        }
        m_size = m_stride[0] * m_dims[0];
    }

    void run()
    {
        // owning tensor (exactly-sized Eigen heap block)
        tmem mem(m_dims);
        {
            const auto mem2 = std::apply([](auto... d) { return tmem(d...); }, m_dims);
            m_storage       = "mem";
            REQ(mem2.dims() == m_dims && mem2.size() == m_size, "construct/dims", "variadic constructor: size", mem2.size(), m_size);
            tmem mem3;
            REQ(mem3.size() == 0 && mem3.dims() == dims_t<R>{}, "construct/dims", "default constructor: size", mem3.size(), 0);
            mem3.resize(m_dims);
            REQ(mem3.dims() == m_dims && mem3.size() == m_size, "resize/dims", "resize(dims): size", mem3.size(), m_size);
            std::apply([&](auto... d) { mem3.resize(d...); }, m_dims);
            REQ(mem3.dims() == m_dims && mem3.size() == m_size, "resize/dims", "resize(sizes...): size", mem3.size(), m_size);
        }
        std::vector<T> mirror(static_cast<size_t>(m_size));
        write_all(mem, mem.data(), mirror, "mem");
        read_all(std::as_const(mem), static_cast<const T*>(mem.data()), mirror, "const mem");

        // mutable map over an exactly-sized heap block
        block_t<T>     block(m_size);
        std::vector<T> mirror2(static_cast<size_t>(m_size));
        tmap           map(block.data(), m_dims);
        {
            const auto map2 = nano::map_tensor(block.data(), m_dims);
            const auto map3 = std::apply([&](auto... d) { return nano::map_tensor(block.data(), d...); }, m_dims);
            m_storage       = "map";
            REQ(map2.data() == block.data() && map2.dims() == m_dims, "map_tensor/alias", "map_tensor(ptr, dims)");
            REQ(map3.data() == block.data() && map3.dims() == m_dims, "map_tensor/alias", "map_tensor(ptr, sizes...)");
        }
        write_all(map, block.data(), mirror2, "map");

        // constant map over the same block
        tcmap cmap(static_cast<const T*>(block.data()), m_dims);
        {
            const auto cmap2 = nano::map_tensor(static_cast<const T*>(block.data()), m_dims);
            m_storage        = "cmap";
            REQ(cmap2.data() == block.data() && cmap2.dims() == m_dims, "map_tensor/alias", "map_tensor(const ptr, dims)");
        }
        read_all(cmap, static_cast<const T*>(block.data()), mirror2, "cmap");

        conversions(mem, mirror, map, block, mirror2);
        gathers(std::as_const(mem), mirror, "const mem");
        gathers(cmap, mirror2, "cmap");
        removals(mirror2);
        integrals();
    }

    bool   borderline() const { return m_borderline; }
    double worst_ratio() const { return m_worst_ratio; }

private:
    // -- positions (harness-side row-major arithmetic) -------------------------------------------
    template <size_t P>
    ts offset_of(const std::array<ts, P>& idx) const
    {
        ts off = 0;
        for (size_t j = 0; j < P; ++j)
        {
            off += idx[j] * m_stride[j];
        }
        return off;
    }

    template <size_t P>
    dims_t<R - P> tail_dims() const
    {
        dims_t<R - P> tail{};
        for (size_t j = P; j < R; ++j)
        {
            tail[j - P] = m_dims[j];
        }
        return tail;
    }

    ts tail_size(const size_t p) const { return p == 0 ? m_size : m_stride[p - 1]; }

    std::vector<std::pair<ts, ts>> slices() const
    {
        std::vector<std::pair<ts, ts>> out;
        const auto                     d0 = m_dims[0];
        if (m_plan.exhaustive)
        {
            for (ts b = 0; b <= d0; ++b)
            {
                for (ts e = b; e <= d0; ++e)
                {
                    out.emplace_back(b, e);
                }
            }
        }
        else
        {
            out = {{0, 0}, {d0, d0}, {0, d0}, {d0 / 2, d0}, {0, d0 / 2}, {d0 > 0 ? d0 - 1 : 0, d0}, {0, d0 > 0 ? 1 : 0}};
            out.insert(out.end(), m_plan.slices.begin(), m_plan.slices.end());
        }
        return out;
    }

    // reshape targets with K extents
    template <size_t K>
    std::vector<std::array<ts, K>> reshape_targets() const
    {
        std::vector<std::array<ts, K>> out;
        std::array<ts, K>              cur{};
        if (m_size > 0)
        {
            if (m_plan.exhaustive)
            {
                factorisations<K>(m_size, 0, cur, out);
            }
            else
            {
                // distribute the prime factors over the K extents as told by the case (a few variants)
                const auto primes = prime_factors(m_size);
                for (size_t variant = 0; variant < 3; ++variant)
                {
                    cur.fill(1);
                    for (size_t i = 0; i < primes.size(); ++i)
                    {
                        const auto m = m_plan.mix.empty() ? static_cast<int>(i + variant)
                                                          : m_plan.mix[(i + variant * primes.size()) % m_plan.mix.size()];
                        cur[static_cast<size_t>((m < 0 ? -m : m)) % K] *= primes[i];
                    }
                    out.push_back(cur);
                }
                cur.fill(1);
                cur[0] = m_size;
                out.push_back(cur);
                cur[0]     = 1;
                cur[K - 1] = m_size;
                out.push_back(cur);
            }
        }
        else
        {
            // empty tensors: one zero extent, the others positive
            const ts others[3] = {1, 3, 2};
            for (size_t z = 0; z < K; ++z)
            {
                for (size_t variant = 0; variant < 2; ++variant)
                {
                    for (size_t j = 0; j < K; ++j)
                    {
                        cur[j] = j == z ? 0 : others[(j + variant) % 3];
                    }
                    out.push_back(cur);
                }
            }
        }
        return out;
    }

    // -- reading through every access path ---------------------------------------------------------
    template <class TT>
    void verify(TT& t, const T* base, const std::vector<T>& mirror, const char* what)
    {
        ts lin = 0;
        for_each_tuple<R>(m_dims,
                          [&](const std::array<ts, R>& idx)
                          {
                              at(idx);
                              const T got = std::apply([&](auto... i) -> T { return t(i...); }, idx);
                              REQ(got == mirror[static_cast<size_t>(lin)], "index/content-after-write", what, got,
                                  mirror[static_cast<size_t>(lin)]);
                              REQ(base[lin] == mirror[static_cast<size_t>(lin)], "raw/content-after-write", what, base[lin],
                                  mirror[static_cast<size_t>(lin)]);
                              ++lin;
                          });
        at_none();
    }

    template <size_t P, class TT>
    void read_prefix(TT& t, const T* base, const std::vector<T>& mirror)
    {
        const auto tail = tail_dims<P>();
        const auto sz   = tail_size(P);
        for_each_tuple<P>(
            m_dims,
            [&](const std::array<ts, P>& idx)
            {
                at(idx);
                const auto off = offset_of(idx);
                std::apply(
                    [&](auto... i)
                    {
                        REQ(t.offset0(i...) == off, "offset0/value", "offset0(prefix): got, expected", t.offset0(i...), off);
                        REQ(t.dims0(i...) == tail, "dims0/value", "dims0(prefix) is not the tail of the shape");
                        REQ(nano::index0(t.dims(), i...) == off, "offset0/value", "index0(dims, prefix): got, expected",
                            nano::index0(t.dims(), i...), off);

                        const auto v = t.vector(i...);
                        REQ(v.data() == base + off, "vector/address", "vector(prefix) starts at data+, expected data+",
                            v.data() - base, off);
                        REQ(v.size() == sz, "vector/size", "vector(prefix).size(): got, expected", v.size(), sz);
                        const auto a = t.array(i...);
                        REQ(a.size() == sz, "array/size", "array(prefix).size(): got, expected", a.size(), sz);
                        const auto s = t.tensor(i...);
                        REQ(s.data() == base + off, "tensor/address", "tensor(prefix) starts at data+, expected data+",
                            s.data() - base, off);
                        REQ(s.dims() == tail, "tensor/dims", "tensor(prefix).dims() is not the tail of the shape");
                        REQ(s.size() == sz, "tensor/dims", "tensor(prefix).size(): got, expected", s.size(), sz);
                        for (ts j = 0; j < sz; ++j)
                        {
                            const auto want = mirror[static_cast<size_t>(off + j)];
                            REQ(v(j) == want, "vector/content", "vector(prefix)(j): j, got, expected", j, v(j), want);
                            REQ(a(j) == want, "array/content", "array(prefix)(j): j, got, expected", j, a(j), want);
                            REQ(s(j) == want, "tensor/content", "tensor(prefix)(j): j, got, expected", j, s(j), want);
                            REQ(&s(j) == base + off + j, "tensor/address", "&tensor(prefix)(j): j, got data+, expected data+", j,
                                &s(j) - base, off + j);
                        }
                        if constexpr (P + 2 == R)
                        {
                            const auto m    = t.matrix(i...);
                            const auto rows = m_dims[R - 2];
                            const auto cols = m_dims[R - 1];
                            REQ(m.data() == base + off, "matrix/address", "matrix(prefix) starts at data+, expected data+",
                                m.data() - base, off);
                            REQ(m.rows() == rows && m.cols() == cols, "matrix/dims", "matrix(prefix): rows, cols, expected rows, cols",
                                m.rows(), m.cols(), rows, cols);
                            for (ts r = 0; r < rows; ++r)
                            {
                                for (ts c = 0; c < cols; ++c)
                                {
                                    const auto want = mirror[static_cast<size_t>(off + r * cols + c)];
                                    REQ(m(r, c) == want, "matrix/content", "matrix(prefix)(r,c): r, c, got, expected", r, c, m(r, c), want);
                                }
                            }
                        }
                    },
                    idx);
            });
        at_none();
    }

    template <class TT, size_t... P>
    void read_prefixes(TT& t, const T* base, const std::vector<T>& mirror, std::index_sequence<P...>)
    {
        (read_prefix<P>(t, base, mirror), ...);
    }

    template <size_t K>
    std::array<double, 4> as_numbers(const std::array<ts, K>& f) const
    {
        std::array<double, 4> out{};
        for (size_t j = 0; j < K; ++j)
        {
            out[j] = static_cast<double>(f[j]);
        }
        return out;
    }

    template <size_t K, class TT>
    void read_reshapes(TT& t, const T* base, const std::vector<T>& mirror)
    {
        for (const auto& f : reshape_targets<K>())
        {
            const auto fn    = as_numbers(f);
            const auto check = [&](const auto& r, const char* what)
            {
                REQ(r.data() == base, "reshape/address", what, fn[0], fn[1], fn[2], fn[3]);
                REQ(r.dims() == f, "reshape/dims", what, fn[0], fn[1], fn[2], fn[3]);
                REQ(r.size() == m_size, "reshape/dims", what, fn[0], fn[1], fn[2], fn[3]);
            };
            const auto r = std::apply([&](auto... s) { return t.reshape(s...); }, f);
            check(r, "reshape to (first extents listed): wrong address or extents");
            ts lin = 0;
            for_each_tuple<K>(f,
                              [&](const std::array<ts, K>& idx)
                              {
                                  at(idx);
                                  const T got = std::apply([&](auto... i) -> T { return r(i...); }, idx);
                                  REQ(got == mirror[static_cast<size_t>(lin)], "reshape/content",
                                      "reshaped tensor element: got, expected, target extents", got,
                                      mirror[static_cast<size_t>(lin)], fn[0], fn[1], fn[2], fn[3]);
                                  ++lin;
                              });
            at_none();
            // one inferred extent; domain: the remaining extents are positive
            for (size_t q = 0; q < K; ++q)
            {
                bool others_positive = true;
                for (size_t j = 0; j < K; ++j)
                {
                    others_positive = others_positive && (j == q || f[j] > 0);
                }
                if (others_positive)
                {
                    auto g = f;
                    g[q]   = -1;
                    check(std::apply([&](auto... s) { return t.reshape(s...); }, g),
                          "reshape with one inferred (-1) extent, expected extents listed: wrong address or extents");
                    m_inferred++;
                }
            }
        }
    }

    template <class TT>
    void read_all(TT& t, const T* base, const std::vector<T>& mirror, const char* storage)
    {
        m_storage = storage;
        at_none();
        REQ(t.dims() == m_dims, "dims/value", "dims()");
        REQ(t.size() == m_size, "size/value", "size(): got, expected", t.size(), m_size);
        REQ(t.template size<0>() == m_dims[0], "size/value", "size<0>(): got, expected", t.template size<0>(), m_dims[0]);
        REQ(t.template size<R - 1>() == m_dims[R - 1], "size/value", "size<R-1>(): got, expected", t.template size<R - 1>(), m_dims[R - 1]);
        REQ(nano::size(t.dims()) == m_size, "size/value", "nano::size(dims): got, expected", nano::size(t.dims()), m_size);
        if constexpr (R >= 2)
        {
            REQ(t.rows() == m_dims[R - 2] && t.cols() == m_dims[R - 1], "size/value", "rows(), cols()", t.rows(), t.cols());
        }
        REQ(static_cast<const T*>(t.data()) == base, "data/address", "data()");
        REQ(static_cast<const T*>(t.begin()) == base && static_cast<const T*>(t.end()) == base + m_size, "data/address",
            "begin()/end()");

        // full indexing: the offset is the row-major rank of the tuple (tuples are enumerated in lexicographic order)
        ts lin = 0;
        for_each_tuple<R>(m_dims,
                          [&](const std::array<ts, R>& idx)
                          {
                              at(idx);
                              std::apply(
                                  [&](auto... i)
                                  {
                                      REQ(t.offset(i...) == lin, "offset/not-row-major", "offset(tuple): got, expected", t.offset(i...), lin);
                                      REQ(t.offset0(i...) == lin, "offset0/value", "offset0(full tuple): got, expected", t.offset0(i...), lin);
                                      REQ(nano::index(t.dims(), i...) == lin, "offset/not-row-major", "index(dims, tuple): got, expected",
                                          nano::index(t.dims(), i...), lin);
                                      const T& ref = t(i...);
                                      REQ(&ref == base + lin, "index/address", "&t(tuple): got data+, expected data+", &ref - base, lin);
                                      REQ(ref == mirror[static_cast<size_t>(lin)], "index/content", "t(tuple): got, expected", ref,
                                          mirror[static_cast<size_t>(lin)]);
                                  },
                                  idx);
                              const T& ref = t(lin);
                              REQ(&ref == base + lin, "index/address", "&t(linear index): got data+, expected data+", &ref - base, lin);
                              ++lin;
                          });
        at_none();
        REQ(lin == m_size, "size/value", "number of index tuples, size", lin, m_size);

        read_prefixes(t, base, mirror, std::make_index_sequence<R>{});

        for (const auto& [b, e] : slices())
        {
            dims_t<R> want = m_dims;
            want[0]        = e - b;
            const auto off = b * m_stride[0];
            const auto s   = t.slice(b, e);
            REQ(s.data() == base + off, "slice/address", "slice(b,e): b, e, starts at data+, expected data+", b, e, s.data() - base, off);
            REQ(s.dims() == want, "slice/dims", "slice(b,e): b, e, first extent", b, e, s.template size<0>());
            for (ts j = 0, n = (e - b) * m_stride[0]; j < n; ++j)
            {
                REQ(s(j) == mirror[static_cast<size_t>(off + j)], "slice/content", "slice(b,e)(j): b, e, j, got, expected", b, e, j,
                    s(j), mirror[static_cast<size_t>(off + j)]);
            }
            const auto s2 = t.slice(nano::make_range(b, e));
            REQ(s2.data() == base + off && s2.dims() == want, "slice/address", "slice(range(b,e)): b, e, starts at data+, expected data+",
                b, e, s2.data() - base, off);
        }

        read_reshapes<1>(t, base, mirror);
        read_reshapes<2>(t, base, mirror);
        read_reshapes<3>(t, base, mirror);
        read_reshapes<4>(t, base, mirror);
    }

    // -- writing through every access path -------------------------------------------------------------
    template <size_t P, class TT>
    void write_prefix(TT& t, T* base, std::vector<T>& mirror)
    {
        const auto sz = tail_size(P);
        for (int path = 0; path < 4; ++path)
        {
            if (path == 3 && P + 2 != R)
            {
                continue;
            }
            ++m_salt;
            for_each_tuple<P>(m_dims,
                              [&](const std::array<ts, P>& idx)
                              {
                                  at(idx);
                                  const auto off = offset_of(idx);
                                  std::apply(
                                      [&](auto... i)
                                      {
                                          if (path == 0)
                                          {
                                              auto v = t.vector(i...);
                                              REQ(v.data() == base + off && v.size() == sz, "vector/address",
                                                  "vector(prefix) before writing: starts at data+, expected data+, size, expected size", v.data() - base, off,
                                                  v.size(), sz);
                                              for (ts j = 0; j < sz; ++j)
                                              {
                                                  v(j) = val<T>(off + j, m_salt);
                                              }
                                          }
                                          else if (path == 1)
                                          {
                                              auto a = t.array(i...);
                                              REQ(a.size() == sz, "array/size", "array(prefix) before writing: size, expected size", a.size(), sz);
                                              for (ts j = 0; j < sz; ++j)
                                              {
                                                  a(j) = val<T>(off + j, m_salt);
                                              }
                                          }
                                          else if (path == 2)
                                          {
                                              auto s = t.tensor(i...);
                                              REQ(s.data() == base + off && s.size() == sz, "tensor/address",
                                                  "tensor(prefix) before writing: starts at data+, expected data+, size, expected size", s.data() - base, off,
                                                  s.size(), sz);
                                              for (ts j = 0; j < sz; ++j)
                                              {
                                                  s(j) = val<T>(off + j, m_salt);
                                              }
                                          }
                                          else if constexpr (P + 2 == R)
                                          {
                                              auto       m    = t.matrix(i...);
                                              const auto cols = m_dims[R - 1];
                                              REQ(m.data() == base + off && m.rows() == m_dims[R - 2] && m.cols() == cols, "matrix/address",
                                                  "matrix(prefix) before writing: starts at data+, expected data+, rows, cols", m.data() - base, off, m.rows(),
                                                  m.cols());
                                              for (ts r = 0; r < m_dims[R - 2]; ++r)
                                              {
                                                  for (ts c = 0; c < cols; ++c)
                                                  {
                                                      m(r, c) = val<T>(off + r * cols + c, m_salt);
                                                  }
                                              }
                                          }
                                      },
                                      idx);
                                  for (ts j = 0; j < sz; ++j)
                                  {
                                      mirror[static_cast<size_t>(off + j)] = val<T>(off + j, m_salt);
                                  }
                              });
            static const char* names[] = {"after writing through vector(prefix): got, expected", "after writing through array(prefix): got, expected",
                                          "after writing through tensor(prefix): got, expected", "after writing through matrix(prefix): got, expected"};
            verify(t, base, mirror, names[path]);
        }
    }

    template <class TT, size_t... P>
    void write_prefixes(TT& t, T* base, std::vector<T>& mirror, std::index_sequence<P...>)
    {
        (write_prefix<P>(t, base, mirror), ...);
    }

    template <size_t K, class TT>
    void write_reshapes(TT& t, T* base, std::vector<T>& mirror)
    {
        for (const auto& f : reshape_targets<K>())
        {
            ++m_salt;
            auto r   = std::apply([&](auto... s) { return t.reshape(s...); }, f);
            ts   lin = 0;
            REQ(r.data() == base && r.dims() == f, "reshape/address", "reshape(...) before writing: wrong address or extents; size, expected", r.size(), m_size);
            for_each_tuple<K>(f,
                              [&](const std::array<ts, K>& idx)
                              {
                                  at(idx);
                                  std::apply(
                                      [&](auto... i)
                                      {
                                          REQ(r.offset(i...) == lin, "offset/not-row-major",
                                              "offset(tuple) in the reshaped tensor before writing: got, expected", r.offset(i...), lin);
                                          r(i...) = val<T>(lin, m_salt);
                                      },
                                      idx);
                                  mirror[static_cast<size_t>(lin)] = val<T>(lin, m_salt);
                                  ++lin;
                              });
            at_none();
            verify(t, base, mirror, "after writing through reshape(...): got, expected");
        }
    }

    template <class TT>
    void write_all(TT& t, T* base, std::vector<T>& mirror, const char* storage)
    {
        m_storage = storage;
        at_none();
        REQ(static_cast<const T*>(t.data()) == base, "data/address", "data()");

        // full indexing
        ++m_salt;
        ts lin = 0;
        for_each_tuple<R>(m_dims,
                          [&](const std::array<ts, R>& idx)
                          {
                              at(idx);
                              std::apply(
                                  [&](auto... i)
                                  {
                                      REQ(t.offset(i...) == lin, "offset/not-row-major", "offset(tuple) before writing: got, expected", t.offset(i...), lin);
                                      t(i...) = val<T>(lin, m_salt);
                                  },
                                  idx);
                              mirror[static_cast<size_t>(lin)] = val<T>(lin, m_salt);
                              ++lin;
                          });
        at_none();
        for (ts k = 0; k < m_size; ++k)
        {
            REQ(base[k] == mirror[static_cast<size_t>(k)], "index/write-address",
                "data[k] after writing through full indexing: k, got, expected", k, base[k], mirror[static_cast<size_t>(k)]);
        }
        // linear indexing
        ++m_salt;
        for (ts k = 0; k < m_size; ++k)
        {
            t(k)                            = val<T>(k, m_salt);
            mirror[static_cast<size_t>(k)] = val<T>(k, m_salt);
        }
        verify(t, base, mirror, "after writing through linear indexing: got, expected");

        write_prefixes(t, base, mirror, std::make_index_sequence<R>{});

        for (const auto& [b, e] : slices())
        {
            ++m_salt;
            const auto off = b * m_stride[0];
            auto       s   = t.slice(b, e);
            REQ(s.data() == base + off && s.size() == (e - b) * m_stride[0], "slice/address",
                "slice(b,e) before writing: b, e, starts at data+, expected data+, size", b, e, s.data() - base, off, s.size());
            for (ts j = 0, n = (e - b) * m_stride[0]; j < n; ++j)
            {
                s(j)                                  = val<T>(off + j, m_salt);
                mirror[static_cast<size_t>(off + j)] = val<T>(off + j, m_salt);
            }
            verify(t, base, mirror, "after writing through slice(b,e): got, expected");
        }

        write_reshapes<1>(t, base, mirror);
        write_reshapes<2>(t, base, mirror);
        write_reshapes<3>(t, base, mirror);
        write_reshapes<4>(t, base, mirror);

        // leave distinct, index-identifying contents behind
        ++m_salt;
        for (ts k = 0; k < m_size; ++k)
        {
            base[k]                         = val<T>(k, m_salt);
            mirror[static_cast<size_t>(k)] = val<T>(k, m_salt);
        }
    }

    // -- storage conversions -------------------------------------------------------------------------------
    template <class TT>
    void same_contents(const TT& t, const std::vector<T>& mirror, const char* what)
    {
        REQ(t.dims() == m_dims, "convert/dims", what);
        for (ts k = 0; k < m_size; ++k)
        {
            REQ(t.data()[k] == mirror[static_cast<size_t>(k)], "convert/content", what, k, t.data()[k], mirror[static_cast<size_t>(k)]);
        }
    }

    void conversions(tmem& mem, const std::vector<T>& mirror, tmap& map, const block_t<T>& block, const std::vector<T>& mirror2)
    {
        m_storage = "conversions";
        at_none();
        // aliasing conversions
        tmap m_from_mem(mem);
        REQ(m_from_mem.data() == mem.data(), "convert/alias", "map(mem) does not alias");
        same_contents(m_from_mem, mirror, "map(mem): k, got, expected");
        tcmap c_from_mem(std::as_const(mem));
        REQ(c_from_mem.data() == mem.data(), "convert/alias", "cmap(const mem) does not alias");
        same_contents(c_from_mem, mirror, "cmap(const mem): k, got, expected");
        tcmap c_from_map(map);
        REQ(c_from_map.data() == block.data(), "convert/alias", "cmap(map) does not alias");
        same_contents(c_from_map, mirror2, "cmap(map): k, got, expected");
        tcmap c_from_cmap(c_from_map);
        REQ(c_from_cmap.data() == block.data(), "convert/alias", "cmap(cmap) does not alias");
        tmap m_from_map(map);
        REQ(m_from_map.data() == block.data(), "convert/alias", "map(map) does not alias");

        // copying conversions
        tmem mem_from_cmap(c_from_map);
        same_contents(mem_from_cmap, mirror2, "mem(cmap): k, got, expected");
        REQ(m_size == 0 || mem_from_cmap.data() != block.data(), "convert/copy", "mem(cmap) aliases its source");
        tmem mem_from_map(map);
        same_contents(mem_from_map, mirror2, "mem(map): k, got, expected");
        REQ(m_size == 0 || mem_from_map.data() != block.data(), "convert/copy", "mem(map) aliases its source");
        tmem mem_copy(mem);
        same_contents(mem_copy, mirror, "mem(mem): k, got, expected");
        REQ(m_size == 0 || mem_copy.data() != mem.data(), "convert/copy", "mem(mem) aliases its source");

        tmem assigned; // assignment resizes
        assigned = c_from_map;
        same_contents(assigned, mirror2, "mem = cmap: k, got, expected");
        REQ(m_size == 0 || assigned.data() != block.data(), "convert/copy", "mem = cmap aliases its source");
        assigned = c_from_mem;
        same_contents(assigned, mirror, "mem = cmap(mem): k, got, expected");
        assigned = map;
        same_contents(assigned, mirror2, "mem = map: k, got, expected");
        REQ(m_size == 0 || assigned.data() != block.data(), "convert/copy", "mem = map aliases its source");
        assigned = mem;
        same_contents(assigned, mirror, "mem = mem: k, got, expected");

        // assignment to a map copies the elements into the mapped block (same size), the map keeps its block
        block_t<T> other(m_size);
        tmap       target(other.data(), m_dims);
        target = mem;
        REQ(target.data() == other.data(), "convert/alias", "map = mem rebinds the map");
        same_contents(target, mirror, "map = mem: k, got, expected");
        target = c_from_map;
        REQ(target.data() == other.data(), "convert/alias", "map = cmap rebinds the map");
        same_contents(target, mirror2, "map = cmap: k, got, expected");
        target = m_from_mem;
        REQ(target.data() == other.data(), "convert/alias", "map = map rebinds the map");
        same_contents(target, mirror, "map = map: k, got, expected");
        same_contents(map, mirror2, "source of the assignments (map) changed: k, got, expected");
        same_contents(mem, mirror, "source of the assignments (mem) changed: k, got, expected");

        // assignment from a view of the tensor's OWN buffer (first-axis slices, constant and mutable views): the result
        // holds exactly the slice's elements (the library itself shrinks tensors this way)
        for (const auto& [b, e] : slices())
        {
            dims_t<R> want = m_dims;
            want[0]        = e - b;
            const auto off = b * m_stride[0];
            const auto n   = (e - b) * m_stride[0];
            {
                tmem self(mem);
                self = std::as_const(self).slice(b, e);
                REQ(self.dims() == want, "convert/self-assign/dims", "mem = cmap of itself: b, e, first extent", b, e, self.template size<0>());
                for (ts j = 0; j < n; ++j)
                {
                    REQ(self.data()[j] == mirror[static_cast<size_t>(off + j)], "convert/self-assign/content",
                        "mem = const slice(b,e) of itself: b, e, j, got, expected", b, e, j, self.data()[j], mirror[static_cast<size_t>(off + j)]);
                }
            }
            {
                tmem self(mem);
                self = self.slice(b, e);
                REQ(self.dims() == want, "convert/self-assign/dims", "mem = map of itself: b, e, first extent", b, e, self.template size<0>());
                for (ts j = 0; j < n; ++j)
                {
                    REQ(self.data()[j] == mirror[static_cast<size_t>(off + j)], "convert/self-assign/content",
                        "mem = slice(b,e) of itself: b, e, j, got, expected", b, e, j, self.data()[j], mirror[static_cast<size_t>(off + j)]);
                }
            }
        }
        same_contents(mem, mirror, "source of the self-assignments (mem) changed: k, got, expected");

        // moving an owning tensor hands over its elements; the moved-from object, re-armed with resize(<same shape>), is a
        // tensor of its own again: m_size elements, all of them addressable, none shared with the new owner
        {
            tmem source(mem);
            tmem moved(std::move(source));
            same_contents(moved, mirror, "mem(mem&&): k, got, expected");
            source.resize(m_dims);
            REQ(source.dims() == m_dims, "convert/move/dims", "resize of a moved-from tensor");
            REQ(m_size == 0 || (source.data() != nullptr && source.data() != moved.data()), "convert/move/buffer",
                "moved-from tensor after resize(same shape) has no buffer of its own");
            for (ts k = 0; k < m_size; ++k)
            {
                source.data()[k] = mirror2[static_cast<size_t>(k)];
            }
            same_contents(source, mirror2, "moved-from tensor after resize + fill: k, got, expected");
            same_contents(moved, mirror, "mem(mem&&) after its source was re-used: k, got, expected");

            tmem target;
            target = std::move(source);
            same_contents(target, mirror2, "mem = mem&&: k, got, expected");
            source.resize(m_dims);
            REQ(source.dims() == m_dims, "convert/move/dims", "resize of a moved-from (move-assigned) tensor");
            REQ(m_size == 0 || (source.data() != nullptr && source.data() != target.data()), "convert/move/buffer",
                "move-assigned-from tensor after resize(same shape) has no buffer of its own");
            for (ts k = 0; k < m_size; ++k)
            {
                source.data()[k] = mirror[static_cast<size_t>(k)];
            }
            same_contents(source, mirror, "move-assigned-from tensor after resize + fill: k, got, expected");
            same_contents(target, mirror2, "mem = mem&& after its source was re-used: k, got, expected");
        }

        // the chain mem -> map -> cmap -> mem
        tmap  chain1(mem);
        tcmap chain2(chain1);
        tmem  chain3(chain2);
        REQ(chain2.data() == mem.data(), "convert/alias", "mem->map->cmap does not alias");
        same_contents(chain3, mirror, "mem->map->cmap->mem: k, got, expected");
    }

    // -- index gathers ---------------------------------------------------------------------------------------
    template <class TT>
    void gathers(const TT& t, const std::vector<T>& mirror, const char* storage)
    {
        m_storage = storage;
        at_none();
        const auto d0 = m_dims[0];
        if (d0 <= 0)
        {
            return; // no valid first-axis index exists
        }
        std::vector<std::vector<ts>> lists = m_plan.gathers;
        {
            std::vector<ts> identity, reversed, twice;
            for (ts i = 0; i < d0; ++i)
            {
                identity.push_back(i);
                reversed.push_back(d0 - 1 - i);
                twice.push_back(i);
                twice.push_back(i);
            }
            lists.push_back(identity);
            lists.push_back(reversed);
            lists.push_back({d0 - 1});
            lists.push_back({0, 0, d0 - 1});
            if (m_plan.exhaustive)
            {
                lists.push_back(twice);
            }
        }
        const auto row = m_stride[0];
        for (const auto& list : lists)
        {
            const auto n = static_cast<ts>(list.size());
            // the index list lives in an exactly-sized block as well
            block_t<ts> iblock(n);
            for (ts i = 0; i < n; ++i)
            {
                iblock.data()[i] = list[static_cast<size_t>(i)];
            }
            const nano::indices_cmap_t indices(static_cast<const ts*>(iblock.data()), nano::make_dims(n));

            dims_t<R> want = m_dims;
            want[0]        = n;
            const auto check = [&](const auto& sub, const char* what)
            {
                REQ(sub.dims() == want, "indexed/dims", what, sub.template size<0>(), n);
                for (ts i = 0; i < n; ++i)
                {
                    for (ts j = 0; j < row; ++j)
                    {
                        const auto got  = sub.data()[i * row + j];
                        const auto from = list[static_cast<size_t>(i)] * row + j;
                        REQ(static_cast<double>(got) == static_cast<double>(mirror[static_cast<size_t>(from)]), "indexed/content", what,
                            i, list[static_cast<size_t>(i)], j, got, mirror[static_cast<size_t>(from)]);
                    }
                }
            };
            const auto sub = t.indexed(indices);
            check(sub, "indexed(indices): row, index, element, got, expected");
            REQ(n * row == 0 || static_cast<const T*>(sub.data()) != static_cast<const T*>(t.data()), "indexed/copy",
                "indexed(indices) aliases its source");

            nano::tensor_mem_t<T, R> out; // resized by the call
            t.indexed(indices, out);
            check(out, "indexed(indices, mem&): row, index, element, got, expected");

            block_t<T> oblock(n * row);
            t.indexed(indices, nano::tensor_map_t<T, R>(oblock.data(), want));
            check(nano::tensor_cmap_t<T, R>(static_cast<const T*>(oblock.data()), want),
                  "indexed(indices, map): row, index, element, got, expected");

            const auto cast = t.template indexed<double>(indices);
            check(cast, "indexed<double>(indices): row, index, element, got, expected");
            m_gathered += n;
        }
        // the source is untouched
        for (ts k = 0; k < m_size; ++k)
        {
            REQ(t.data()[k] == mirror[static_cast<size_t>(k)], "indexed/source-modified", "data[k]: k", k);
        }
    }

    // -- remove_if ------------------------------------------------------------------------------------------------
    void removals(const std::vector<T>& contents)
    {
        m_storage = "remove_if";
        at_none();
        const auto                    d0  = m_dims[0];
        const auto                    row = m_stride[0];
        std::vector<std::vector<int>> masks;
        if (m_plan.exhaustive && d0 <= 4)
        {
            for (int bits = 0; bits < (1 << d0); ++bits)
            {
                std::vector<int> mask;
                for (ts i = 0; i < d0; ++i)
                {
                    mask.push_back((bits >> i) & 1);
                }
                masks.push_back(mask);
            }
        }
        else
        {
            masks.emplace_back(static_cast<size_t>(d0), 0);
            masks.emplace_back(static_cast<size_t>(d0), 1);
        }
        for (const auto& m : m_plan.masks)
        {
            std::vector<int> mask(static_cast<size_t>(d0), 0);
            for (ts i = 0; i < d0 && !m.empty(); ++i)
            {
                mask[static_cast<size_t>(i)] = m[static_cast<size_t>(i) % m.size()] & 1;
            }
            masks.push_back(mask);
        }
        for (const auto& mask : masks)
        {
            std::vector<ts> kept;
            for (ts i = 0; i < d0; ++i)
            {
                if (mask[static_cast<size_t>(i)] == 0)
                {
                    kept.push_back(i);
                }
            }
            const auto nkept = static_cast<ts>(kept.size());
            const auto op    = [&](const ts i) { return mask[static_cast<size_t>(i)] != 0; };

            // a map over an exactly-sized block together with an owning first-axis label vector
            block_t<T> block(m_size);
            std::copy(contents.begin(), contents.end(), block.data());
            tmap                           map(block.data(), m_dims);
            nano::tensor_mem_t<int32_t, 1> labels(d0);
            for (ts i = 0; i < d0; ++i)
            {
                labels(i) = static_cast<int32_t>(i);
            }
            const auto count = nano::remove_if(op, labels, map);
            REQ(count == nkept, "remove_if/count", "returned, expected", count, nkept);
            REQ(map.dims() == m_dims && map.data() == block.data() && labels.size() == d0, "remove_if/dims", "tensors resized");
            for (ts i = 0; i < count; ++i)
            {
                const auto src = kept[static_cast<size_t>(i)];
                REQ(labels(i) == src, "remove_if/content", "label: position, got, expected", i, labels(i), src);
                for (ts j = 0; j < row; ++j)
                {
                    REQ(block.data()[i * row + j] == contents[static_cast<size_t>(src * row + j)], "remove_if/content",
                        "row, element, got, expected (source row)", i, j, block.data()[i * row + j],
                        contents[static_cast<size_t>(src * row + j)], src);
                }
            }
            // an owning tensor alone
            tmem mem(m_dims);
            std::copy(contents.begin(), contents.end(), mem.data());
            const auto count2 = nano::remove_if(op, mem);
            REQ(count2 == nkept, "remove_if/count", "(mem) returned, expected", count2, nkept);
            for (ts i = 0; i < count2; ++i)
            {
                const auto src = kept[static_cast<size_t>(i)];
                for (ts j = 0; j < row; ++j)
                {
                    REQ(mem.data()[i * row + j] == contents[static_cast<size_t>(src * row + j)], "remove_if/content",
                        "(mem) row, element, got, expected (source row)", i, j, mem.data()[i * row + j],
                        contents[static_cast<size_t>(src * row + j)], src);
                }
            }
        }
    }

    // -- summed-area table -----------------------------------------------------------------------------------------
    template <class TO>
    void integral(const std::vector<T>& input, const bool exact)
    {
        using acc_t = std::conditional_t<std::is_floating_point_v<T>, long double, int64_t>;
        const auto n = static_cast<size_t>(m_size);

        // reference prefix sums (and prefix sums of magnitudes for the tolerance)
        std::vector<acc_t> want(n), mags(n);
        if (m_plan.exhaustive && m_size <= 1024)
        {
            // the definition: sum over all cells that are component-wise <= the cell
            std::array<ts, R> a{}, b{};
            for (ts ka = 0; ka < m_size; ++ka)
            {
                for (size_t j = 0; j < R; ++j)
                {
                    a[j] = (ka / m_stride[j]) % m_dims[j];
                }
                acc_t sum = 0, mag = 0;
                for (ts kb = 0; kb <= ka; ++kb)
                {
                    bool inside = true;
                    for (size_t j = 0; j < R; ++j)
                    {
                        b[j]   = (kb / m_stride[j]) % m_dims[j];
                        inside = inside && b[j] <= a[j];
                    }
                    if (inside)
                    {
                        const auto x = static_cast<acc_t>(input[static_cast<size_t>(kb)]);
                        sum += x;
                        mag += x < 0 ? -x : x;
                    }
                }
                want[static_cast<size_t>(ka)] = sum;
                mags[static_cast<size_t>(ka)] = mag;
            }
        }
        else
        {
            // separable: cumulative sums along each axis in turn
            for (size_t k = 0; k < n; ++k)
            {
                const auto x = static_cast<acc_t>(input[k]);
                want[k]      = x;
                mags[k]      = x < 0 ? -x : x;
            }
            for (size_t axis = 0; axis < R; ++axis)
            {
                for (ts k = 0; k < m_size; ++k)
                {
                    if ((k / m_stride[axis]) % m_dims[axis] > 0)
                    {
                        want[static_cast<size_t>(k)] += want[static_cast<size_t>(k - m_stride[axis])];
                        mags[static_cast<size_t>(k)] += mags[static_cast<size_t>(k - m_stride[axis])];
                    }
                }
            }
        }

        const auto compare = [&](const TO* got, const char* what)
        {
            for (size_t k = 0; k < n; ++k)
            {
                if (exact)
                {
                    REQ(static_cast<acc_t>(got[k]) == want[k], "integral/value", what, k, got[k], want[k]);
                }
                else
                {
                    const auto tol = 1e3L * static_cast<long double>(std::numeric_limits<TO>::epsilon()) *
                                     static_cast<long double>(mags[k]);
                    const auto err = std::fabs(static_cast<long double>(got[k]) - static_cast<long double>(want[k]));
                    if (tol > 0)
                    {
                        m_worst_ratio = std::max(m_worst_ratio, static_cast<double>(err / tol));
                    }
                    REQ(err <= 10 * tol, "integral/value", what, k, got[k], want[k], tol);
                    m_borderline = m_borderline || err > tol;
                }
            }
        };

        // owning tensors
        tmem in(m_dims);
        std::copy(input.begin(), input.end(), in.data());
        nano::tensor_mem_t<TO, R> out(m_dims);
        nano::integral(in, out);
        m_storage = "integral(mem)";
        at_none();
        REQ(out.dims() == m_dims, "integral/dims", "output resized");
        compare(out.data(), "integral(mem, mem): cell, got, expected[, tolerance]");

        // maps over exactly-sized blocks
        block_t<T> iblock(m_size);
        std::copy(input.begin(), input.end(), iblock.data());
        block_t<TO> oblock(m_size);
        nano::integral(tcmap(static_cast<const T*>(iblock.data()), m_dims), nano::tensor_map_t<TO, R>(oblock.data(), m_dims));
        m_storage = "integral(map)";
        compare(oblock.data(), "integral(cmap, map): cell, got, expected[, tolerance]");
        for (size_t k = 0; k < n; ++k)
        {
            REQ(iblock.data()[k] == input[k], "integral/source-modified", "input cell", k);
        }
    }

    void integrals()
    {
        const auto     n = static_cast<size_t>(m_size);
        std::vector<T> input(n);
        if constexpr (std::is_floating_point_v<T>)
        {
            const bool reals = m_plan.reals && m_size <= 512; // the 1e3*eps bound needs fewer than 1e3 terms
            for (size_t k = 0; k < n; ++k)
            {
                const auto h = splitmix(k * 0x100000001B3ULL + m_plan.salt);
                input[k]     = reals ? static_cast<T>(static_cast<double>(h >> 11) / 9007199254740992.0 * 2.0 - 1.0)
                                     : static_cast<T>((static_cast<double>(h % 129) - 64.0) / 8.0);
            }
            // dyadic inputs: every partial sum is exactly representable (|sum| <= 8e5, multiples of 1/8)
            integral<T>(input, !reals);
            if constexpr (std::is_same_v<T, float>)
            {
                integral<double>(input, !reals);
            }
        }
        else
        {
            for (size_t k = 0; k < n; ++k)
            {
                const auto h = splitmix(k * 0x100000001B3ULL + m_plan.salt);
                input[k]     = std::is_signed_v<T> ? static_cast<T>(static_cast<int>(h % 15) - 7) : static_cast<T>(h % 15);
            }
            integral<int64_t>(input, true);
        }
    }

    // attributes
    dims_t<R>         m_dims;
    const plan_t&     m_plan;
    std::array<ts, R> m_stride{};
    ts                m_size{0};
    unsigned          m_salt{0};
    bool              m_borderline{false};
    double            m_worst_ratio{0.0};

public:
    ts m_inferred{0}; // reshapes with an inferred extent
    ts m_gathered{0}; // gathered first-axis rows
};

// ---- dispatch on (scalar type id, rank) ---------------------------------------------------------------------
constexpr int         ntypes             = 10;
const char*           type_names[ntypes] = {"int8", "uint8", "int32", "uint64", "float", "double", "int16", "uint16", "uint32", "int64"};

inline int types_for_rank(const int rank)
{
    return rank <= 2 ? 10 : 6;
}

struct outcome_t
{
    bool   borderline{false};
    double worst_ratio{0.0};
    ts     inferred{0};
    ts     gathered{0};
};

template <class T, size_t R>
outcome_t run_checker(const std::vector<int>& dims, const plan_t& plan, const int type)
{
    dims_t<R> d{};
    for (size_t i = 0; i < R; ++i)
    {
        d[i] = dims[i];
    }
    checker_t<T, R> checker(d, plan, type_names[type]);
    checker.run();
    return {checker.borderline(), checker.worst_ratio(), checker.m_inferred, checker.m_gathered};
}

// C16_PROBE_TYPES (sensitivity experiments only): instantiate int32 / float / double only, which compiles in under a minute
#ifdef C16_PROBE_TYPES
inline bool type_served(const int type)
{
    return type == 2 || type == 4 || type == 5;
}
    #define C16_UNLESS_PROBE(call) break
#else
inline bool type_served(const int)
{
    return true;
}
    #define C16_UNLESS_PROBE(call) return call
#endif

template <size_t R>
outcome_t run_rank(const std::vector<int>& dims, const plan_t& plan, const int type)
{
    switch (type)
    {
    case 0: C16_UNLESS_PROBE((run_checker<int8_t, R>(dims, plan, type)));
    case 1: C16_UNLESS_PROBE((run_checker<uint8_t, R>(dims, plan, type)));
    case 2: return run_checker<int32_t, R>(dims, plan, type);
    case 3: C16_UNLESS_PROBE((run_checker<uint64_t, R>(dims, plan, type)));
    case 4: return run_checker<float, R>(dims, plan, type);
    case 5: return run_checker<double, R>(dims, plan, type);
    default: break;
    }
    if constexpr (R <= 2)
    {
        switch (type)
        {
        case 6: C16_UNLESS_PROBE((run_checker<int16_t, R>(dims, plan, type)));
        case 7: C16_UNLESS_PROBE((run_checker<uint16_t, R>(dims, plan, type)));
        case 8: C16_UNLESS_PROBE((run_checker<uint32_t, R>(dims, plan, type)));
        case 9: C16_UNLESS_PROBE((run_checker<int64_t, R>(dims, plan, type)));
        default: break;
        }
    }
    throw std::logic_error("scalar type not instantiated for this rank");
}

template <size_t R>
outcome_t dispatch_rank(const std::vector<int>& dims, const plan_t& plan, const int type)
{
    if (dims.size() == R)
    {
        return run_rank<R>(dims, plan, type);
    }
    if constexpr (R < C16_RANK_MAX)
    {
        return dispatch_rank<R + 1>(dims, plan, type);
    }
    throw std::logic_error("rank not instantiated in this executable");
}

inline bool rank_served(const int rank)
{
    return rank >= C16_RANK_MIN && rank <= C16_RANK_MAX;
}

verdict_t run_shape(const std::vector<int>& dims, const plan_t& plan, const int type, ctx_t& ctx, outcome_t& outcome)
{
    try
    {
        outcome = dispatch_rank<C16_RANK_MIN>(dims, plan, type);
    }
    catch (const fail_t& f)
    {
        return verdict_t::violation(f.sig, f.msg);
    }
    catch (const std::exception& e)
    {
        return verdict_t::violation("C16/exception", cat(type_names[type], " rank ", dims.size(), ": ", e.what()));
    }
    ctx.maximum("integral error / tolerance", outcome.worst_ratio);
    if (outcome.borderline)
    {
        return verdict_t::borderline("integral/value");
    }
    return verdict_t::ok();
}

void label_shape(const std::vector<int>& dims, const int type, ctx_t& ctx)
{
    const auto rank = dims.size();
    bool       zero = false, one = false;
    long       size = 1;
    for (const auto d : dims)
    {
        zero = zero || d == 0;
        one  = one || d == 1;
        size *= d;
    }
    ctx.label("rank-" + std::to_string(rank));
    ctx.label(std::string("type-") + type_names[type]);
    ctx.label_if(zero, "zero-extent");
    ctx.label_if(one, "unit-extent");
    ctx.label_if(!zero && !one, "all-extents>=2");
    ctx.label_if(dims.front() == 0, "leading-zero-extent");
    ctx.label_if(dims.back() == 0 && rank >= 2, "trailing-zero-extent");
    ctx.label_if(dims.front() == 1 && rank >= 2, "leading-unit-extent");
    ctx.label_if(dims.back() == 1 && rank >= 2, "trailing-unit-extent");
    ctx.label_if(size == 1, "single-element");
    ctx.label_if(zero && one, "zero-and-unit-extent");
    // non-triviality rule: rank >= 2 and at least one extent of 0 or 1 (the -1 inference is exercised for every shape)
    ctx.nontrivial = rank >= 2 && (zero || one);
}

// ---- small shapes: sweep (deterministic) and small (random) ----------------------------------------------------
struct small_t
{
    int              rank{1};
    int              shape{0}; // base-5 digits (rank 5: base-4) = extents, first extent most significant
    int              type{0};
    int              salt{0};
    bool             reals{false};
    std::vector<int> gather;
    std::vector<int> mask;

    template <class A>
    void io(A& a)
    {
        a("rank", rank);
        a("shape", shape);
        a("type", type);
        a("salt", salt);
        a("reals", reals);
        a("gather", gather);
        a("mask", mask);
    }
};

inline int extent_base(const int rank)
{
    return rank == 5 ? 4 : 5;
}

inline int shapes_of_rank(const int rank)
{
    int n = 1;
    for (int i = 0; i < rank; ++i)
    {
        n *= extent_base(rank);
    }
    return n;
}

std::vector<int> decode_shape(const int rank, int shape)
{
    std::vector<int> dims(static_cast<size_t>(rank));
    for (int i = rank - 1; i >= 0; --i)
    {
        dims[static_cast<size_t>(i)] = shape % extent_base(rank);
        shape /= extent_base(rank);
    }
    return dims;
}

verdict_t check_small(const small_t& c, ctx_t& ctx)
{
    if (!rank_served(c.rank) || c.shape < 0 || c.shape >= shapes_of_rank(c.rank) || c.type < 0 ||
        c.type >= types_for_rank(c.rank) || c.salt < 0 || !type_served(c.type))
    {
        return verdict_t::discard("outside-the-space-served-by-this-executable");
    }
    const auto dims = decode_shape(c.rank, c.shape);
    plan_t     plan;
    plan.exhaustive = true;
    plan.salt       = static_cast<unsigned>(c.salt);
    plan.reals      = c.reals;
    if (dims[0] > 0 && !c.gather.empty())
    {
        std::vector<ts> list;
        for (const auto g : c.gather)
        {
            list.push_back((g < 0 ? -static_cast<ts>(g) : static_cast<ts>(g)) % dims[0]);
        }
        plan.gathers.push_back(list);
    }
    if (!c.mask.empty())
    {
        plan.masks.push_back(c.mask);
    }
    outcome_t  outcome;
    const auto v = run_shape(dims, plan, c.type, ctx, outcome);
    label_shape(dims, c.type, ctx);
    ctx.label_if(outcome.inferred > 0, "reshape-with-inferred-extent");
    ctx.label_if(outcome.gathered > 0, "gather");
    ctx.label_if(c.reals && c.type >= 4 && c.type <= 5, "integral-of-reals");
    return v;
}

rc::Gen<small_t> gen_small()
{
    return rc::gen::mapcat(
        gen::range<int>(C16_RANK_MIN, C16_RANK_MAX),
        [](const int rank)
        {
            return rc::gen::map(
                rc::gen::tuple(gen::range<int>(0, shapes_of_rank(rank) - 1), gen::range<int>(0, types_for_rank(rank) - 1),
                               gen::range<int>(0, 255), gen::chance(50),
                               rc::gen::mapcat(gen::range<size_t>(1, 9),
                                               [](const size_t n) { return rc::gen::container<std::vector<int>>(n, gen::range<int>(0, 11)); }),
                               rc::gen::mapcat(gen::range<size_t>(1, 4),
                                               [](const size_t n) { return rc::gen::container<std::vector<int>>(n, gen::range<int>(0, 1)); })),
                [=](const std::tuple<int, int, int, bool, std::vector<int>, std::vector<int>>& t)
                {
                    small_t c;
                    c.rank   = rank;
                    c.shape  = std::get<0>(t);
                    c.type   = type_served(std::get<1>(t)) ? std::get<1>(t) : 5;
                    c.salt   = std::get<2>(t);
                    c.reals  = std::get<3>(t);
                    c.gather = std::get<4>(t);
                    c.mask   = std::get<5>(t);
                    return c;
                });
        });
}

// every (rank, shape, type) combination, in a fixed order
const std::vector<small_t>& all_combinations()
{
    static const auto all = []
    {
        std::vector<small_t> out;
        for (int rank = C16_RANK_MIN; rank <= C16_RANK_MAX; ++rank)
        {
            for (int shape = 0; shape < shapes_of_rank(rank); ++shape)
            {
                for (int type = 0; type < types_for_rank(rank); ++type)
                {
                    if (!type_served(type))
                    {
                        continue;
                    }
                    small_t c;
                    c.rank  = rank;
                    c.shape = shape;
                    c.type  = type;
                    c.salt  = (shape + type) % 7;
                    c.reals = false;
                    out.push_back(c);
                }
            }
        }
        return out;
    }();
    return all;
}

// deterministic generator: the k-th call returns the k-th combination (no randomness, no shrinking);
// `--sub sweep... --cases N` with N >= #combinations covers the finite space completely, whatever the seed
rc::Gen<small_t> gen_sweep()
{
    const auto counter = std::make_shared<size_t>(0);
    return rc::Gen<small_t>(
        [=](const rc::Random&, int)
        {
            const auto& all = all_combinations();
            return rc::shrinkable::just(all[(*counter)++ % all.size()]);
        });
}

// ---- large shapes -----------------------------------------------------------------------------------------------
struct large_t
{
    std::vector<int> dims;
    int              type{0};
    int              salt{0};
    std::vector<int> slices; // pairs (b, e) before reduction into the domain
    std::vector<int> mix;
    std::vector<int> gather;
    std::vector<int> mask;

    template <class A>
    void io(A& a)
    {
        a("dims", dims);
        a("type", type);
        a("salt", salt);
        a("slices", slices);
        a("mix", mix);
        a("gather", gather);
        a("mask", mask);
    }
};

constexpr long max_large_size = 100000;

verdict_t check_large(const large_t& c, ctx_t& ctx)
{
    const auto rank = static_cast<int>(c.dims.size());
    if (!rank_served(rank) || c.type < 0 || c.type >= types_for_rank(rank) || c.salt < 0 || !type_served(c.type))
    {
        return verdict_t::discard("outside-the-space-served-by-this-executable");
    }
    long size = 1;
    for (const auto d : c.dims)
    {
        if (d < 0 || d > max_large_size)
        {
            return verdict_t::discard("negative-or-huge-extent");
        }
        size *= d;
        if (size > max_large_size)
        {
            return verdict_t::discard("more-than-1e5-elements");
        }
    }
    plan_t plan;
    plan.exhaustive = false;
    plan.salt       = static_cast<unsigned>(c.salt);
    plan.mix        = c.mix;
    const ts d0     = c.dims[0];
    for (size_t i = 0; i + 1 < c.slices.size(); i += 2)
    {
        const auto x = static_cast<ts>(c.slices[i] < 0 ? -c.slices[i] : c.slices[i]) % (d0 + 1);
        const auto y = static_cast<ts>(c.slices[i + 1] < 0 ? -c.slices[i + 1] : c.slices[i + 1]) % (d0 + 1);
        plan.slices.emplace_back(std::min(x, y), std::max(x, y));
    }
    if (d0 > 0 && !c.gather.empty())
    {
        std::vector<ts> list;
        for (const auto g : c.gather)
        {
            list.push_back((g < 0 ? -static_cast<ts>(g) : static_cast<ts>(g)) % d0);
        }
        plan.gathers.push_back(list);
    }
    if (!c.mask.empty())
    {
        plan.masks.push_back(c.mask);
    }
    outcome_t  outcome;
    const auto v = run_shape(c.dims, plan, c.type, ctx, outcome);
    label_shape(c.dims, c.type, ctx);
    ctx.label(size == 0 ? "size-0" : size < 100 ? "size<100" : size < 10000 ? "size<1e4" : "size>=1e4");
    ctx.label_if(outcome.gathered > 0, "gather");
    ctx.label_if(!plan.slices.empty(), "sampled-slices");
    ctx.nontrivial = size >= 100;
    return v;
}

rc::Gen<large_t> gen_large()
{
    // extents are built from small factors so that their product stays <= 1e5 and reshape targets exist
    const auto factor = rc::gen::element(2, 2, 2, 3, 3, 4, 5, 5, 7, 8, 10, 11, 13, 16, 25, 31, 64, 100);
    return rc::gen::mapcat(
        gen::range<int>(C16_RANK_MIN, C16_RANK_MAX),
        [=](const int rank)
        {
            const auto factors = rc::gen::mapcat(gen::range<size_t>(0, 9), [=](const size_t n)
                                                 { return rc::gen::container<std::vector<int>>(n, factor); });
            const auto places  = rc::gen::container<std::vector<int>>(10, gen::range<int>(0, rank - 1));
            const auto ints    = [](const size_t lo, const size_t hi, const int max)
            {
                return rc::gen::mapcat(gen::range<size_t>(lo, hi), [=](const size_t n)
                                       { return rc::gen::container<std::vector<int>>(n, gen::range<int>(0, max)); });
            };
            return rc::gen::map(
                rc::gen::tuple(factors, places, gen::range<int>(0, 99), gen::range<int>(0, types_for_rank(rank) - 1),
                               gen::range<int>(0, 255), ints(0, 8, 100000), ints(1, 12, 3), ints(1, 12, 100000), ints(1, 5, 1)),
                [=](const std::tuple<std::vector<int>, std::vector<int>, int, int, int, std::vector<int>, std::vector<int>,
                                     std::vector<int>, std::vector<int>>& t)
                {
                    large_t c;
                    c.dims.assign(static_cast<size_t>(rank), 1);
                    long size = 1;
                    for (size_t i = 0; i < std::get<0>(t).size(); ++i)
                    {
                        const auto f = std::get<0>(t)[i];
                        if (size * f > max_large_size)
                        {
                            break;
                        }
                        size *= f;
                        c.dims[static_cast<size_t>(std::get<1>(t)[i])] *= f;
                    }
                    // 6 %: one extent is zero
                    const auto special = std::get<2>(t);
                    if (special < 6)
                    {
                        c.dims[static_cast<size_t>(special % rank)] = 0;
                    }
                    c.type   = type_served(std::get<3>(t)) ? std::get<3>(t) : 5;
                    c.salt   = std::get<4>(t);
                    c.slices = std::get<5>(t);
                    if (c.slices.size() % 2 == 1)
                    {
                        c.slices.pop_back();
                    }
                    c.mix    = std::get<6>(t);
                    c.gather = std::get<7>(t);
                    c.mask   = std::get<8>(t);
                    return c;
                });
        });
}

// ---- nano::stack -------------------------------------------------------------------------------------------------------
struct stackcase_t
{
    int              type{0};    // 0 int32, 1 double
    int              pattern{0}; // see check_stack_typed
    std::vector<int> sizes;      // block heights / widths, each in 1..5
    int              salt{0};

    template <class A>
    void io(A& a)
    {
        a("type", type);
        a("pattern", pattern);
        a("sizes", sizes);
        a("salt", salt);
    }
};

template <class T>
verdict_t check_stack_typed(const stackcase_t& c, ctx_t& ctx)
{
    using matrix_t = nano::tensor_mem_t<T, 2>;
    using vector_t = nano::tensor_mem_t<T, 1>;

    const auto size_at = [&](const size_t i) { return static_cast<ts>(c.sizes[i]); };
    int64_t    serial  = 0;
    const auto salt    = static_cast<unsigned>(c.salt);
    const auto fill_m  = [&](const ts rows, const ts cols)
    {
        matrix_t m(rows, cols);
        for (ts k = 0; k < rows * cols; ++k)
        {
            m(k) = val<T>(serial++, salt);
        }
        return m;
    };
    const auto fill_v = [&](const ts rows)
    {
        vector_t v(rows);
        for (ts k = 0; k < rows; ++k)
        {
            v(k) = val<T>(serial++, salt);
        }
        return v;
    };

    // expected placement: (top, left, rows, cols, getter)
    struct placed_t
    {
        ts                         top, left, rows, cols;
        std::function<T(ts, ts)>   at;
    };
    std::vector<placed_t> placed;
    const auto            place_m = [&](const ts top, const ts left, const matrix_t& m)
    { placed.push_back({top, left, m.rows(), m.cols(), [&m](ts r, ts col) { return m(r, col); }}); };
    const auto place_col = [&](const ts top, const ts left, const vector_t& v)
    { placed.push_back({top, left, v.size(), 1, [&v](ts r, ts) { return v(r); }}); };
    const auto place_row = [&](const ts top, const ts left, const vector_t& v)
    { placed.push_back({top, left, 1, v.size(), [&v](ts, ts col) { return v(col); }}); };
    const auto place_const = [&](const ts top, const ts left, const ts rows, const ts cols, const T value)
    { placed.push_back({top, left, rows, cols, [value](ts, ts) { return value; }}); };

    const auto compare = [&](const matrix_t& got, const ts rows, const ts cols) -> verdict_t
    {
        if (got.rows() != rows || got.cols() != cols)
        {
            return verdict_t::violation("C16/stack/dims", cat("pattern ", c.pattern, ": ", got.rows(), "x", got.cols(),
                                                             " expected ", rows, "x", cols));
        }
        std::vector<int> covered(static_cast<size_t>(rows * cols), 0);
        for (const auto& p : placed)
        {
            for (ts r = 0; r < p.rows; ++r)
            {
                for (ts col = 0; col < p.cols; ++col)
                {
                    covered[static_cast<size_t>((p.top + r) * cols + p.left + col)]++;
                    if (got(p.top + r, p.left + col) != p.at(r, col))
                    {
                        return verdict_t::violation("C16/stack/content",
                                                    cat("pattern ", c.pattern, ": element (", p.top + r, ",", p.left + col,
                                                        ")=", +got(p.top + r, p.left + col), " expected ", +p.at(r, col)));
                    }
                }
            }
        }
        for (const auto n : covered)
        {
            if (n != 1)
            {
                return verdict_t::discard("stack-layout-with-gaps"); // harness-side layout error, never generated
            }
        }
        return verdict_t::ok();
    };

    static const char* patterns[] = {"vector-segments", "2x2-blocks", "bands-2-3-1", "columns", "vertical"};
    ctx.label(std::string("stack-") + patterns[c.pattern]);
    ctx.label(c.type == 0 ? "type-int32" : "type-double");
    ctx.nontrivial = c.pattern != 0;

    switch (c.pattern)
    {
    case 0:
    {
        // vector: tensor, Eigen map, Eigen expression
        const auto a = fill_v(size_at(0));
        const auto b = fill_v(size_at(1));
        const auto k = val<T>(serial++, salt);
        const auto n = size_at(0) + size_at(1) + size_at(2);
        const auto got = nano::stack<T>(n, a, b.vector(), nano::eigen_vector_t<T>::Constant(size_at(2), k));
        if (got.size() != n)
        {
            return verdict_t::violation("C16/stack/dims", cat("vector stack has size ", got.size(), " expected ", n));
        }
        for (ts i = 0; i < n; ++i)
        {
            const T want = i < a.size() ? a(i) : i < a.size() + b.size() ? b(i - a.size()) : k;
            if (got(i) != want)
            {
                return verdict_t::violation("C16/stack/content", cat("vector stack element ", i, "=", +got(i), " expected ", +want));
            }
        }
        return verdict_t::ok();
    }
    case 1:
    {
        const auto h1 = size_at(0), h2 = size_at(1), w1 = size_at(2), w2 = size_at(3);
        const auto A = fill_m(h1, w1), B = fill_m(h1, w2), C = fill_m(h2, w1), D = fill_m(h2, w2);
        const nano::eigen_matrix_t<T> Ce = C.matrix();
        place_m(0, 0, A);
        place_m(0, w1, B);
        place_m(h1, 0, C);
        place_m(h1, w1, D);
        return compare(nano::stack<T>(h1 + h2, w1 + w2, A, B.matrix(), Ce, D), h1 + h2, w1 + w2);
    }
    case 2:
    {
        // band 1: two blocks, band 2: three blocks, band 3: a transposed vector
        const auto h1 = size_at(0), h2 = size_at(1), u1 = size_at(2), u2 = size_at(3), u3 = size_at(4);
        const auto W  = u1 + u2 + u3;
        const auto w1 = 1 + (size_at(5) % (W - 1)); // 1 <= w1 < W
        const auto A = fill_m(h1, w1), B = fill_m(h1, W - w1), C = fill_m(h2, u1), D = fill_m(h2, u2), E = fill_m(h2, u3);
        const auto v = fill_v(W);
        place_m(0, 0, A);
        place_m(0, w1, B);
        place_m(h1, 0, C);
        place_m(h1, u1, D);
        place_m(h1, u1 + u2, E);
        place_row(h1 + h2, 0, v);
        return compare(nano::stack<T>(h1 + h2 + 1, W, A.matrix(), B, C, D.matrix(), E, v.transpose()), h1 + h2 + 1, W);
    }
    case 3:
    {
        // columns: rank-1 tensor, matrix, Eigen column
        const auto h = size_at(0), w = size_at(1);
        const auto a = fill_v(h);
        const auto M = fill_m(h, w);
        const auto b = fill_v(h);
        place_col(0, 0, a);
        place_m(0, 1, M);
        place_col(0, 1 + w, b);
        return compare(nano::stack<T>(h, w + 2, a, M, b.vector()), h, w + 2);
    }
    default:
    {
        // vertical: matrix, constant expression, matrix map, transposed vector
        const auto h1 = size_at(0), h2 = size_at(1), h3 = size_at(2), W = size_at(3);
        const auto A = fill_m(h1, W), B = fill_m(h3, W);
        const auto k = val<T>(serial++, salt);
        const auto v = fill_v(W);
        place_m(0, 0, A);
        place_const(h1, 0, h2, W, k);
        place_m(h1 + h2, 0, B);
        place_row(h1 + h2 + h3, 0, v);
        return compare(nano::stack<T>(h1 + h2 + h3 + 1, W, A, nano::eigen_matrix_t<T>::Constant(h2, W, k), B.matrix(), v.transpose()),
                       h1 + h2 + h3 + 1, W);
    }
    }
}

verdict_t check_stack(const stackcase_t& c, ctx_t& ctx)
{
    if (c.type < 0 || c.type > 1 || c.pattern < 0 || c.pattern > 4 || c.sizes.size() != 6 || c.salt < 0)
    {
        return verdict_t::discard("outside-the-space-served-by-this-executable");
    }
    for (const auto s : c.sizes)
    {
        if (s < 1 || s > 64)
        {
            return verdict_t::discard("block-extent-not-positive"); // blocks are "compatible in size and without gaps"
        }
    }
    try
    {
        return c.type == 0 ? check_stack_typed<int32_t>(c, ctx) : check_stack_typed<double>(c, ctx);
    }
    catch (const std::exception& e)
    {
        return verdict_t::violation("C16/exception/stack", e.what());
    }
}

rc::Gen<stackcase_t> gen_stack()
{
    return rc::gen::map(rc::gen::tuple(gen::range<int>(0, 1), gen::range<int>(0, 4),
                                       rc::gen::container<std::vector<int>>(6, gen::range<int>(1, 5)), gen::range<int>(0, 255)),
                        [](const std::tuple<int, int, std::vector<int>, int>& t)
                        {
                            stackcase_t c;
                            c.type    = std::get<0>(t);
                            c.pattern = std::get<1>(t);
                            c.sizes   = std::get<2>(t);
                            c.salt    = std::get<3>(t);
                            return c;
                        });
}
} // namespace

#ifndef VERIF_NO_MAIN
int main(int argc, char** argv)
{
    const std::string suffix = C16_SUFFIX;
    if (argc == 2 && std::string(argv[1]) == "--combinations")
    {
        std::printf("%zu\n", all_combinations().size());
        return 0;
    }
    suite_t suite("C16");
    suite.add<small_t>("small" + suffix, gen_small, check_small, 30.0);
    suite.add<large_t>("large" + suffix, gen_large, check_large, 1.0);
#ifdef C16_WITH_STACK
    suite.add<stackcase_t>("stack", gen_stack, check_stack, 10.0);
#endif
    // selected explicitly with `--sub sweep<suffix> --cases <combinations>`: the tiny weight keeps it out of mixed runs
    suite.add<small_t>("sweep" + suffix, gen_sweep, check_small, 1e-9);
    return suite.main(argc, argv);
}
#endif
