// C10 — weak learners fit residuals optimally in their hypothesis class (RSS criterion) and predict
// consistently (DESIGN.md section 5, C10).
//
// sub-check "optimal":      stump / hinge / affine / dense table / discrete-step table are fitted with the
//                           rss criterion; the returned score is compared with a brute-force minimum over the
//                           hypothesis class (long double, two-pass sums) and the RSS of the fitted learner's
//                           own predictions is compared with that minimum as well.
// sub-check "consistency":  all 8 learners, any of the 4 criteria: predict adds to the given outputs, is zero
//                           where the selected feature (any feature on the tree path) is missing, depends only
//                           on the sample, equals the table (coefficients) of the group reported by split();
//                           scale(s); wlearner::merge; depth-1 tree == stump.
//
// Reference model of the data = the generated data_spec_t (dataset_gen.h); the dataset views themselves are the
// subject of C08.
#include "common.h"
#include <optional>
#include "dataset_gen.h"

#include <nano/dataset.h>
#include <nano/generator/elemwise_identity.h>
#include <nano/wlearner/affine.h>
#include <nano/wlearner/criterion.h>
#include <nano/wlearner/dtree.h>
#include <nano/wlearner/hinge.h>
#include <nano/wlearner/stump.h>
#include <nano/wlearner/table.h>
#include <nano/wlearner/util.h>

#include <algorithm>
#include <limits>
#include <sys/resource.h>
#include <sys/wait.h>

using namespace verif;
using namespace verif::ds;
using nano::indices_t;
using nano::tensor4d_t;
using nano::tensor_size_t;

namespace
{
using ld = long double;

constexpr double eps         = std::numeric_limits<double>::epsilon();
constexpr double score_floor = eps * 1e+3; // the library clamps every RSS at 1e3*eps before scoring (criterion.cpp)

const char* const sig_dstep_crash = "C10/dstep/fit/all-missing-feature-crash";
const char* const sig_dtree_crash = "C10/dtree/predict/empty-branch-crash";
const char* const sig_affine_noise = "C10/affine/fit/constant-feature-noise-fit";

// ---------------------------------------------------------------------------------------
// cases
// ---------------------------------------------------------------------------------------
struct base_t
{
    data_spec_t         data;
    int                 threads{1};
    int                 gen_order{0}; // rotation of the order in which the identity generators are added
    std::vector<double> grads;        // samples x outputs
    std::vector<int>    fit;          // sample list given to fit (any order, repeats allowed)

    template <class A>
    void io(A& a)
    {
        data.io(a);
        a("threads", threads);
        a("gen_order", gen_order);
        a("grads", grads);
        a("fit", fit);
    }
};

struct opt_case_t
{
    base_t base;

    template <class A>
    void io(A& a)
    {
        base.io(a);
    }
};

struct con_case_t
{
    base_t                        base;
    int                           criterion{0};
    std::vector<double>           grads2; // second gradient tensor (merge partners)
    std::vector<std::vector<int>> lists;  // sample lists for predict / split
    std::vector<double>           prefill;
    std::vector<double>           scales;
    int                           depth{1}, min_split{1};
    std::vector<int>              merge_keys;

    template <class A>
    void io(A& a)
    {
        base.io(a);
        a("criterion", criterion);
        a("grads2", grads2);
        a("lists", lists);
        a("prefill", prefill);
        a("scales", scales);
        a("depth", depth);
        a("min_split", min_split);
        a("merge_keys", merge_keys);
    }
};

int outputs_of(const data_spec_t& d)
{
    return d.target >= 0 ? d.spec(d.target).dsize() : 0;
}

// ---------------------------------------------------------------------------------------
// generators
// ---------------------------------------------------------------------------------------
rc::Gen<data_spec_t> gen_c10_data(int min_samples)
{
    gen_options_t o;
    o.min_samples = min_samples;
    o.max_samples = 60;
    o.min_inputs  = 1;
    o.max_inputs  = 8;
    o.target_kind = 1; // scalar float64 target, re-shaped below to 1..3 outputs
    o.value_range = 3.0;
    // per-feature units: float64 features are multiplied by an exact power of two (small units such as 2^-30 included)
    const auto units = rc::gen::container<std::vector<int>>(9, rc::gen::element(0, 0, 0, 0, -10, -20, -30, -40, 5));
    // near ties: in some float64 features every third value is its predecessor times (1 + delta), delta = 4e-11 or 1e-13
    // (distinct values, hundreds to hundreds of thousands of ulps apart: the mid-point between them is a threshold of its own)
    const auto nears = rc::gen::container<std::vector<int>>(9, rc::gen::element(0, 0, 0, 0, 0, 0, 1, 2));
    return rc::gen::map(rc::gen::tuple(gen_data(o), gen::range<int>(1, 3), gen::range<int>(0, 2), units, nears),
                        [](const std::tuple<data_spec_t, int, int, std::vector<int>, std::vector<int>>& t)
                        {
                            auto      d      = std::get<0>(t);
                            const int k      = std::get<1>(t);
                            const int layout = std::get<2>(t);
                            const auto tt    = static_cast<size_t>(d.target);
                            // target: 1..3 outputs along one of the three dimensions (its values are not used by weak learners)
                            d.dims[3 * tt + 0] = d.dims[3 * tt + 1] = d.dims[3 * tt + 2] = 1;
                            d.dims[3 * tt + static_cast<size_t>(layout)]                 = k;
                            d.values[tt].assign(static_cast<size_t>(d.samples) * static_cast<size_t>(k), 0.0);
                            // keep feature magnitudes moderate (<= 300): the extremes of the 16/32/64 bit types add nothing here and
                            // would only push the one-pass moment formulas of hinge/affine into their cancellation regime
                            for (int f = 0; f < d.nfeatures_total(); ++f)
                            {
                                if (f != d.target && d.spec(f).is_continuous())
                                {
                                    for (auto& v : d.values[static_cast<size_t>(f)])
                                    {
                                        if (std::fabs(v) > 300.0)
                                        {
                                            v = (v < 0 ? -1.0 : 1.0) * (128.0 + std::fmod(std::fabs(v), 128.0));
                                        }
                                    }
                                    if (d.types[static_cast<size_t>(f)] == static_cast<int>(nano::feature_type::float64))
                                    {
                                        const auto unit = std::ldexp(1.0, std::get<3>(t)[static_cast<size_t>(f) % 9]);
                                        for (auto& v : d.values[static_cast<size_t>(f)])
                                        {
                                            v *= unit;
                                        }
                                        const int near = std::get<4>(t)[static_cast<size_t>(f) % 9];
                                        if (near != 0)
                                        {
                                            auto& vs = d.values[static_cast<size_t>(f)];
                                            for (size_t i = 1; i < vs.size(); i += 3)
                                            {
                                                vs[i] = vs[i - 1] * (1.0 + (near == 1 ? 4e-11 : 1e-13));
                                            }
                                        }
                                    }
                                }
                            }
                            return d;
                        });
}

rc::Gen<std::vector<double>> gen_grads(int count)
{
    const auto n = static_cast<size_t>(count);
    return rc::gen::mapcat(rc::gen::element(0, 0, 0, 1, 1, 2, 3, 4),
                           [n](int style) -> rc::Gen<std::vector<double>>
                           {
                               switch (style)
                               {
                               case 0: return gen::vec(n, 3.0);                                                        // arbitrary reals
                               case 1: return rc::gen::container<std::vector<double>>(n, gen::smallint(-2, 2));        // ties
                               case 2: return rc::gen::container<std::vector<double>>(n, rc::gen::element(-1.5, 2.0)); // two values (exact fits)
                               case 3:                                                                                 // constant (trivial, floor path)
                                   return rc::gen::map(gen::smallint(-3, 3), [n](double v) { return std::vector<double>(n, v); });
                               default: // sparse
                                   return rc::gen::container<std::vector<double>>(
                                       n, rc::gen::mapcat(gen::chance(30), [](bool nz) { return nz ? gen::sym(3.0) : rc::gen::just(0.0); }));
                               }
                           });
}

rc::Gen<std::vector<int>> gen_list(int n)
{
    // styles: all ascending, random subset, random draws with repetition, reversed, few samples, single sample
    return rc::gen::mapcat(rc::gen::element(0, 0, 1, 1, 2, 2, 3, 4, 5),
                           [n](int style) -> rc::Gen<std::vector<int>>
                           {
                               std::vector<int> all(static_cast<size_t>(n));
                               for (int i = 0; i < n; ++i)
                               {
                                   all[static_cast<size_t>(i)] = i;
                               }
                               switch (style)
                               {
                               case 0: return rc::gen::just(all);
                               case 1:
                                   return rc::gen::map(rc::gen::container<std::vector<int>>(static_cast<size_t>(n), gen::range<int>(0, 2)),
                                                       [n](const std::vector<int>& keep)
                                                       {
                                                           std::vector<int> r;
                                                           for (int i = 0; i < n; ++i)
                                                           {
                                                               if (keep[static_cast<size_t>(i)] != 0)
                                                               {
                                                                   r.push_back(i);
                                                               }
                                                           }
                                                           if (r.empty())
                                                           {
                                                               r.push_back(n - 1);
                                                           }
                                                           return r;
                                                       });
                               case 2:
                                   return rc::gen::mapcat(gen::range<int>(1, 2 * n),
                                                          [n](int len)
                                                          { return rc::gen::container<std::vector<int>>(static_cast<size_t>(len), gen::range<int>(0, n - 1)); });
                               case 3: std::reverse(all.begin(), all.end()); return rc::gen::just(all);
                               case 4:
                                   return rc::gen::mapcat(gen::range<int>(2, 4),
                                                          [n](int len)
                                                          { return rc::gen::container<std::vector<int>>(static_cast<size_t>(len), gen::range<int>(0, n - 1)); });
                               default: return rc::gen::map(gen::range<int>(0, n - 1), [](int v) { return std::vector<int>(1, v); });
                               }
                           });
}

rc::Gen<base_t> gen_base()
{
    // 30 % of the data sets have at least 24 samples (deeper trees fit there)
    return rc::gen::mapcat(rc::gen::mapcat(gen::chance(30), [](bool large) { return gen_c10_data(large ? 24 : 2); }),
                           [](const data_spec_t& data)
                           {
                               const int n = data.samples;
                               const int k = outputs_of(data);
                               return rc::gen::map(rc::gen::tuple(gen::range<int>(1, 16), gen::range<int>(0, 3), gen_grads(n * k), gen_list(n)),
                                                   [data](const std::tuple<int, int, std::vector<double>, std::vector<int>>& t)
                                                   {
                                                       base_t b;
                                                       b.data      = data;
                                                       b.threads   = std::get<0>(t);
                                                       b.gen_order = std::get<1>(t);
                                                       b.grads     = std::get<2>(t);
                                                       b.fit       = std::get<3>(t);
                                                       return b;
                                                   });
                           });
}

rc::Gen<opt_case_t> gen_opt_case()
{
    return rc::gen::map(gen_base(),
                        [](const base_t& b)
                        {
                            opt_case_t c;
                            c.base = b;
                            return c;
                        });
}

rc::Gen<con_case_t> gen_con_case()
{
    return rc::gen::mapcat(
        gen_base(),
        [](const base_t& b)
        {
            const int n = b.data.samples;
            const int k = outputs_of(b.data);
            return rc::gen::map(
                rc::gen::tuple(gen::range<int>(0, 3), gen_grads(n * k), rc::gen::container<std::vector<std::vector<int>>>(3, gen_list(n)),
                               rc::gen::container<std::vector<double>>(5, gen::sym(10.0)),
                               rc::gen::container<std::vector<double>>(8, rc::gen::oneOf(gen::real(0.0, 3.0), rc::gen::element(0.0, 1.0, 0.5, 2.0))),
                               rc::gen::element(1, 2, 2, 3, 3, 4), gen::range<int>(1, 10), rc::gen::container<std::vector<int>>(24, gen::range<int>(0, 99))),
                [b](const auto& t)
                {
                    con_case_t c;
                    c.base       = b;
                    c.criterion  = std::get<0>(t);
                    c.grads2     = std::get<1>(t);
                    c.lists      = std::get<2>(t);
                    c.prefill    = std::get<3>(t);
                    c.scales     = std::get<4>(t);
                    c.depth      = std::get<5>(t);
                    c.min_split  = std::get<6>(t);
                    c.merge_keys = std::get<7>(t);
                    return c;
                });
        });
}

// ---------------------------------------------------------------------------------------
// environment of a case: data source, dataset, the features as the weak learners see them
// ---------------------------------------------------------------------------------------
enum vkind
{
    v_scalar = 0,
    v_sclass,
    v_mclass,
    v_struct
};

struct view_t
{
    int                      src{0};
    int                      kind{v_scalar};
    std::vector<char>        given;
    std::vector<double>      x;     // scalar features
    std::vector<std::string> label; // categorical features: the labelling as a string (class index / hit vector)
};

struct env_t
{
    std::unique_ptr<generated_datasource_t> source;
    std::unique_ptr<nano::dataset_t>        dataset;
    std::vector<view_t>                     views; // per dataset feature
    int                                     n{0}, k{0};
};

indices_t to_indices(const std::vector<int>& v)
{
    indices_t t(static_cast<tensor_size_t>(v.size()));
    for (size_t i = 0; i < v.size(); ++i)
    {
        t(static_cast<tensor_size_t>(i)) = v[i];
    }
    return t;
}

tensor4d_t to_grads(const data_spec_t& d, const std::vector<double>& g)
{
    const auto s = d.spec(d.target);
    tensor4d_t t(d.samples, s.d0, s.d1, s.d2);
    for (size_t i = 0; i < g.size(); ++i)
    {
        t.data()[i] = g[i];
    }
    return t;
}

bool valid_base(const base_t& b)
{
    const auto& d = b.data;
    if (!d.valid() || d.target < 0 || d.samples < 1 || b.fit.empty() || b.threads < 1 || b.threads > 64)
    {
        return false;
    }
    const auto ts = d.spec(d.target);
    if (!ts.is_continuous() || ts.type != static_cast<int>(feature_type::float64) || ts.dsize() < 1 ||
        b.grads.size() != static_cast<size_t>(d.samples) * static_cast<size_t>(ts.dsize()))
    {
        return false;
    }
    for (const auto s : b.fit)
    {
        if (s < 0 || s >= d.samples)
        {
            return false;
        }
    }
    for (const auto g : b.grads)
    {
        if (!std::isfinite(g))
        {
            return false;
        }
    }
    return true;
}

env_t make_env(const base_t& b, int threads)
{
    env_t       e;
    const auto& d = b.data;
    e.n           = d.samples;
    e.k           = outputs_of(d);
    e.source      = make_datasource(d);
    e.dataset     = std::make_unique<nano::dataset_t>(*e.source, static_cast<size_t>(threads));
    for (int g = 0; g < 4; ++g)
    {
        switch ((g + b.gen_order) % 4)
        {
        case 0: e.dataset->add<nano::sclass_identity_generator_t>(); break;
        case 1: e.dataset->add<nano::mclass_identity_generator_t>(); break;
        case 2: e.dataset->add<nano::scalar_identity_generator_t>(); break;
        default: e.dataset->add<nano::struct_identity_generator_t>(); break;
        }
    }
    const auto nfeat = static_cast<int>(e.dataset->features());
    for (int j = 0; j < nfeat; ++j)
    {
        const auto feat = e.dataset->feature(j);
        const auto name = feat.name();
        if (name.size() < 2 || name[0] != 'f')
        {
            throw std::runtime_error("unexpected feature name " + name);
        }
        view_t v;
        v.src = std::atoi(name.c_str() + 1);
        if (v.src < 0 || v.src >= d.nfeatures_total() || v.src == d.target)
        {
            throw std::runtime_error("unexpected feature name " + name);
        }
        const auto s = d.spec(v.src);
        v.kind       = s.is_sclass() ? v_sclass : s.is_mclass() ? v_mclass : s.is_scalar() ? v_scalar : v_struct;
        v.given.resize(static_cast<size_t>(e.n));
        v.x.assign(static_cast<size_t>(e.n), 0.0);
        v.label.resize(static_cast<size_t>(e.n));
        for (int i = 0; i < e.n; ++i)
        {
            const auto ii = static_cast<size_t>(i);
            v.given[ii]   = d.given(v.src, i) ? 1 : 0;
            if (v.given[ii] != 0)
            {
                if (v.kind == v_scalar)
                {
                    v.x[ii] = d.stored(v.src, i, 0);
                }
                else if (v.kind == v_sclass)
                {
                    v.label[ii] = cat(static_cast<int>(d.stored(v.src, i, 0)));
                }
                else if (v.kind == v_mclass)
                {
                    for (int c = 0; c < s.classes; ++c)
                    {
                        v.label[ii].push_back(d.stored(v.src, i, c) != 0.0 ? '1' : '0');
                    }
                }
            }
        }
        e.views.push_back(std::move(v));
    }
    return e;
}

// ---------------------------------------------------------------------------------------
// running a library call that may crash in a forked child (mechanisms of the known findings)
// ---------------------------------------------------------------------------------------
enum class probe_t
{
    survived,
    crashed,
    exception,
    inconclusive
};

template <class top>
probe_t probe(const top& op)
{
    std::fflush(stdout);
    std::fflush(stderr);
    const auto pid = ::fork();
    if (pid < 0)
    {
        return probe_t::inconclusive;
    }
    if (pid == 0)
    {
        for (const int sig : {SIGSEGV, SIGABRT, SIGFPE, SIGBUS, SIGILL, SIGTERM})
        {
            ::signal(sig, SIG_DFL);
        }
        struct rlimit nocore = {0, 0};
        ::setrlimit(RLIMIT_CORE, &nocore);
        ::alarm(60);
        try
        {
            op();
        }
        catch (...)
        {
            ::_exit(3);
        }
        ::_exit(0);
    }
    int status = 0;
    if (::waitpid(pid, &status, 0) != pid)
    {
        return probe_t::inconclusive;
    }
    if (WIFSIGNALED(status))
    {
        return WTERMSIG(status) == SIGALRM || WTERMSIG(status) == SIGKILL ? probe_t::inconclusive : probe_t::crashed;
    }
    if (WIFEXITED(status))
    {
        return WEXITSTATUS(status) == 0 ? probe_t::survived : WEXITSTATUS(status) == 3 ? probe_t::exception : probe_t::inconclusive;
    }
    return probe_t::inconclusive;
}

// ---------------------------------------------------------------------------------------
// weak learners
// ---------------------------------------------------------------------------------------
enum lkind
{
    l_stump = 0,
    l_hinge,
    l_affine,
    l_dense,
    l_dstep,
    l_kbest,
    l_ksplit,
    l_dtree
};

const char* lname(int kind)
{
    static const char* names[] = {"stump", "hinge", "affine", "dense", "dstep", "kbest", "ksplit", "dtree"};
    return names[kind];
}

nano::rwlearner_t make_wlearner(int kind, int criterion, int depth = 3, int min_split = 5)
{
    nano::rwlearner_t w;
    switch (kind)
    {
    case l_stump: w = std::make_unique<nano::stump_wlearner_t>(); break;
    case l_hinge: w = std::make_unique<nano::hinge_wlearner_t>(); break;
    case l_affine: w = std::make_unique<nano::affine_wlearner_t>(); break;
    case l_dense: w = std::make_unique<nano::dense_table_wlearner_t>(); break;
    case l_dstep: w = std::make_unique<nano::dstep_table_wlearner_t>(); break;
    case l_kbest: w = std::make_unique<nano::kbest_table_wlearner_t>(); break;
    case l_ksplit: w = std::make_unique<nano::ksplit_table_wlearner_t>(); break;
    default:
        w = std::make_unique<nano::dtree_wlearner_t>();
        w->parameter("wlearner::dtree::max_depth") = depth;
        w->parameter("wlearner::dtree::min_split") = min_split;
        break;
    }
    w->parameter("wlearner::criterion") = static_cast<nano::wlearner_criterion>(criterion);
    return w;
}

bool is_categorical(const view_t& v)
{
    return v.kind == v_sclass || v.kind == v_mclass;
}

// mechanism predicate of sig_dstep_crash: a categorical feature without any given value among the fit samples
bool dstep_crash_predicate(const env_t& e, const std::vector<int>& fit)
{
    for (const auto& v : e.views)
    {
        if (is_categorical(v))
        {
            bool any = false;
            for (const auto s : fit)
            {
                any = any || v.given[static_cast<size_t>(s)] != 0;
            }
            if (!any)
            {
                return true;
            }
        }
    }
    return false;
}

// ---------------------------------------------------------------------------------------
// brute force over the hypothesis classes
// ---------------------------------------------------------------------------------------
struct hyp_t
{
    ld   s{0};           // RSS of the best coefficients of this hypothesis (feature, threshold, direction, label)
    ld   tol{0};         // 1e3 * eps * (sum of the magnitudes of the terms the closed forms combine)
    bool reliable{true}; // false: the library may legitimately skip it (degenerate / ill-conditioned least squares)
    bool degenerate{false}; // affine: the feature is constant among the fit samples (singular normal equations)
    int  feature{-1};
    int  distinct{0};    // distinct values / labellings of the feature among the fit samples
};

struct fitdata_t
{
    const env_t*        e{nullptr};
    std::vector<int>    fit;
    std::vector<double> g;  // samples x k
    std::vector<ld>     g2; // per sample: ||g||^2
    ld                  G2{0};

    ld r(int sample, int c) const { return -static_cast<ld>(g[static_cast<size_t>(sample) * static_cast<size_t>(e->k) + static_cast<size_t>(c)]); }
};

fitdata_t make_fitdata(const env_t& e, const std::vector<int>& fit, const std::vector<double>& g)
{
    fitdata_t f;
    f.e   = &e;
    f.fit = fit;
    f.g   = g;
    f.g2.assign(static_cast<size_t>(e.n), 0);
    for (int i = 0; i < e.n; ++i)
    {
        for (int c = 0; c < e.k; ++c)
        {
            const ld v = f.r(i, c);
            f.g2[static_cast<size_t>(i)] += v * v;
        }
    }
    for (const auto s : fit)
    {
        f.G2 += f.g2[static_cast<size_t>(s)];
    }
    return f;
}

// RSS of fitting one constant per output to the given samples (two passes)
ld rss_constant(const fitdata_t& f, const std::vector<int>& samples)
{
    ld rss = 0;
    for (int c = 0; c < f.e->k; ++c)
    {
        ld mean = 0;
        for (const auto s : samples)
        {
            mean += f.r(s, c);
        }
        mean /= static_cast<ld>(samples.size());
        for (const auto s : samples)
        {
            const ld d = f.r(s, c) - mean;
            rss += d * d;
        }
    }
    return rss;
}

struct scalar_points_t
{
    std::vector<std::pair<double, int>> pts; // (value, sample) sorted by value; one entry per occurrence in the fit list
    std::vector<size_t>                 cuts; // index i such that pts[i-1].first < pts[i].first
    ld                                  missing{0};
    ld                                  X0{0}, X1{0}, X2{0}; // count, sum |x|, sum x^2 over the present entries
    std::vector<ld>                     R1, RX;              // per output: sum |g|, sum |g x|
    int                                 distinct{0};
};

scalar_points_t scalar_points(const fitdata_t& f, const view_t& v)
{
    scalar_points_t p;
    p.R1.assign(static_cast<size_t>(f.e->k), 0);
    p.RX.assign(static_cast<size_t>(f.e->k), 0);
    for (const auto s : f.fit)
    {
        if (v.given[static_cast<size_t>(s)] != 0)
        {
            const auto x = v.x[static_cast<size_t>(s)];
            p.pts.emplace_back(x, s);
            p.X0 += 1;
            p.X1 += std::fabs(static_cast<ld>(x));
            p.X2 += static_cast<ld>(x) * static_cast<ld>(x);
            for (int c = 0; c < f.e->k; ++c)
            {
                p.R1[static_cast<size_t>(c)] += std::fabs(f.r(s, c));
                p.RX[static_cast<size_t>(c)] += std::fabs(f.r(s, c) * static_cast<ld>(x));
            }
        }
        else
        {
            p.missing += f.g2[static_cast<size_t>(s)];
        }
    }
    std::sort(p.pts.begin(), p.pts.end());
    p.distinct = p.pts.empty() ? 0 : 1;
    for (size_t i = 1; i < p.pts.size(); ++i)
    {
        if (p.pts[i - 1].first < p.pts[i].first)
        {
            p.cuts.push_back(i);
            p.distinct++;
        }
    }
    return p;
}

std::vector<hyp_t> brute_stump(const fitdata_t& f)
{
    std::vector<hyp_t> H;
    const auto&        e = *f.e;
    for (int j = 0; j < static_cast<int>(e.views.size()); ++j)
    {
        if (e.views[static_cast<size_t>(j)].kind != v_scalar)
        {
            continue;
        }
        const auto p = scalar_points(f, e.views[static_cast<size_t>(j)]);
        for (const auto cut : p.cuts)
        {
            std::vector<int> lo, hi;
            for (size_t i = 0; i < p.pts.size(); ++i)
            {
                (i < cut ? lo : hi).push_back(p.pts[i].second);
            }
            hyp_t h;
            h.s        = p.missing + rss_constant(f, lo) + rss_constant(f, hi);
            h.tol      = 1e3 * eps * 4 * f.G2;
            h.feature  = j;
            h.distinct = p.distinct;
            H.push_back(h);
        }
    }
    return H;
}

std::vector<hyp_t> brute_hinge(const fitdata_t& f)
{
    std::vector<hyp_t> H;
    const auto&        e = *f.e;
    for (int j = 0; j < static_cast<int>(e.views.size()); ++j)
    {
        if (e.views[static_cast<size_t>(j)].kind != v_scalar)
        {
            continue;
        }
        const auto p = scalar_points(f, e.views[static_cast<size_t>(j)]);
        for (const auto cut : p.cuts)
        {
            const ld t = (static_cast<ld>(p.pts[cut - 1].first) + static_cast<ld>(p.pts[cut].first)) / 2;
            for (int dir = 0; dir < 2; ++dir) // 0: left hinge (active below the threshold), 1: right hinge
            {
                const size_t begin = dir == 0 ? 0 : cut, end = dir == 0 ? cut : p.pts.size();
                ld           den = 0;
                for (size_t i = begin; i < end; ++i)
                {
                    const ld dx = static_cast<ld>(p.pts[i].first) - t;
                    den += dx * dx;
                }
                const ld terms = p.X2 + p.X0 * t * t + 2 * p.X1 * std::fabs(t);
                ld       rss = p.missing, mag = f.G2;
                for (size_t i = 0; i < p.pts.size(); ++i)
                {
                    if (i < begin || i >= end)
                    {
                        rss += f.g2[static_cast<size_t>(p.pts[i].second)];
                    }
                }
                for (int c = 0; c < e.k; ++c)
                {
                    ld num = 0;
                    for (size_t i = begin; i < end; ++i)
                    {
                        num += f.r(p.pts[i].second, c) * (static_cast<ld>(p.pts[i].first) - t);
                    }
                    const ld beta = num / den;
                    for (size_t i = begin; i < end; ++i)
                    {
                        const ld d = f.r(p.pts[i].second, c) - beta * (static_cast<ld>(p.pts[i].first) - t);
                        rss += d * d;
                    }
                    mag += beta * beta * terms + 2 * std::fabs(beta) * (p.RX[static_cast<size_t>(c)] + p.R1[static_cast<size_t>(c)] * std::fabs(t));
                }
                hyp_t h;
                h.s        = rss;
                h.tol      = 1e3 * eps * mag;
                h.reliable = terms <= 1e8 * den;
                h.feature  = j;
                h.distinct = p.distinct;
                H.push_back(h);
            }
        }
    }
    return H;
}

std::vector<hyp_t> brute_affine(const fitdata_t& f)
{
    std::vector<hyp_t> H;
    const auto&        e = *f.e;
    for (int j = 0; j < static_cast<int>(e.views.size()); ++j)
    {
        if (e.views[static_cast<size_t>(j)].kind != v_scalar)
        {
            continue;
        }
        const auto p = scalar_points(f, e.views[static_cast<size_t>(j)]);
        hyp_t      h;
        h.feature  = j;
        h.distinct = p.distinct;
        if (p.pts.empty())
        {
            // no given value: only the zero predictor; the closed form is 0/0 there, the library may skip the feature
            h.s        = f.G2;
            h.tol      = 1e-9 * (f.G2 + 1);
            h.reliable = false;
            H.push_back(h);
            continue;
        }
        std::vector<int> present;
        for (const auto& pt : p.pts)
        {
            present.push_back(pt.second);
        }
        if (p.distinct < 2)
        {
            // constant feature: w*x+b spans the constants only; singular normal equations, the library may skip the feature
            h.s          = p.missing + rss_constant(f, present);
            h.tol        = 1e-9 * (f.G2 + 1);
            h.reliable   = false;
            h.degenerate = true;
            H.push_back(h);
            continue;
        }
        ld xm = 0;
        for (const auto& pt : p.pts)
        {
            xm += static_cast<ld>(pt.first);
        }
        xm /= p.X0;
        ld sxx = 0;
        for (const auto& pt : p.pts)
        {
            const ld dx = static_cast<ld>(pt.first) - xm;
            sxx += dx * dx;
        }
        ld rss = p.missing, mag = f.G2;
        for (int c = 0; c < e.k; ++c)
        {
            ld rm = 0;
            for (const auto& pt : p.pts)
            {
                rm += f.r(pt.second, c);
            }
            rm /= p.X0;
            ld sxr = 0;
            for (const auto& pt : p.pts)
            {
                sxr += (static_cast<ld>(pt.first) - xm) * (f.r(pt.second, c) - rm);
            }
            const ld w = sxr / sxx;
            const ld b = rm - w * xm;
            for (const auto& pt : p.pts)
            {
                const ld d = f.r(pt.second, c) - w * static_cast<ld>(pt.first) - b;
                rss += d * d;
            }
            mag += w * w * p.X2 + b * b * p.X0 + 2 * std::fabs(w) * p.RX[static_cast<size_t>(c)] + 2 * std::fabs(b) * p.R1[static_cast<size_t>(c)] +
                   2 * std::fabs(w * b) * p.X1;
        }
        h.s        = rss;
        h.tol      = 1e3 * eps * mag;
        h.reliable = p.X2 <= 1e8 * sxx;
        H.push_back(h);
    }
    return H;
}

struct label_groups_t
{
    std::map<std::string, std::vector<int>> groups;
    ld                                      missing{0};
};

label_groups_t label_groups(const fitdata_t& f, const view_t& v)
{
    label_groups_t lg;
    for (const auto s : f.fit)
    {
        if (v.given[static_cast<size_t>(s)] != 0)
        {
            lg.groups[v.label[static_cast<size_t>(s)]].push_back(s);
        }
        else
        {
            lg.missing += f.g2[static_cast<size_t>(s)];
        }
    }
    return lg;
}

std::vector<hyp_t> brute_dense(const fitdata_t& f)
{
    std::vector<hyp_t> H;
    const auto&        e = *f.e;
    for (int j = 0; j < static_cast<int>(e.views.size()); ++j)
    {
        if (!is_categorical(e.views[static_cast<size_t>(j)]))
        {
            continue;
        }
        const auto lg = label_groups(f, e.views[static_cast<size_t>(j)]);
        hyp_t      h;
        h.s = lg.missing;
        for (const auto& g : lg.groups)
        {
            h.s += rss_constant(f, g.second);
        }
        h.tol      = 1e3 * eps * 4 * f.G2;
        h.feature  = j;
        h.distinct = static_cast<int>(lg.groups.size());
        H.push_back(h);
    }
    return H;
}

std::vector<hyp_t> brute_dstep(const fitdata_t& f)
{
    std::vector<hyp_t> H;
    const auto&        e = *f.e;
    for (int j = 0; j < static_cast<int>(e.views.size()); ++j)
    {
        if (!is_categorical(e.views[static_cast<size_t>(j)]))
        {
            continue;
        }
        const auto lg = label_groups(f, e.views[static_cast<size_t>(j)]);
        hyp_t      h;
        h.feature  = j;
        h.distinct = static_cast<int>(lg.groups.size());
        h.tol      = 1e3 * eps * 4 * f.G2;
        if (lg.groups.empty())
        {
            // no labelling at all: only the zero predictor (either skipping the feature or scoring it is accepted)
            h.s        = f.G2;
            h.reliable = false;
            H.push_back(h);
            continue;
        }
        for (const auto& g : lg.groups)
        {
            ld others = 0; // samples outside the label (or without a value) keep their full squared residual
            for (const auto s : f.fit)
            {
                if (e.views[static_cast<size_t>(j)].given[static_cast<size_t>(s)] == 0 || e.views[static_cast<size_t>(j)].label[static_cast<size_t>(s)] != g.first)
                {
                    others += f.g2[static_cast<size_t>(s)];
                }
            }
            h.s = others + rss_constant(f, g.second);
            H.push_back(h);
        }
    }
    return H;
}

std::vector<hyp_t> brute(int kind, const fitdata_t& f)
{
    switch (kind)
    {
    case l_stump: return brute_stump(f);
    case l_hinge: return brute_hinge(f);
    case l_affine: return brute_affine(f);
    case l_dense: return brute_dense(f);
    default: return brute_dstep(f);
    }
}

struct bounds_t
{
    bool any{false}, any_reliable{false}, all_reliable{true};
    ld   lo[2]{0, 0};  // min over all hypotheses of s - B*tol           (B = 1, 10)
    ld   hi[2]{0, 0};  // min over the reliable hypotheses of s + B*tol
    ld   phi[2]{0, 0}; // upper bound of the RSS of the selected hypothesis (max over the hypotheses that can win)
    bool phi_valid[2]{false, false};
    ld   best{0}, best_tol{0};
    int  best_feature{-1}, best_distinct{0};
};

bounds_t make_bounds(const std::vector<hyp_t>& H)
{
    bounds_t   b;
    const auto inf = std::numeric_limits<ld>::infinity();
    const ld   B[2] = {1, 10};
    b.lo[0] = b.lo[1] = b.hi[0] = b.hi[1] = inf;
    b.best                                = inf;
    for (const auto& h : H)
    {
        b.any          = true;
        b.all_reliable = b.all_reliable && h.reliable;
        for (int i = 0; i < 2; ++i)
        {
            b.lo[i] = std::min(b.lo[i], h.s - B[i] * h.tol);
            if (h.reliable)
            {
                b.hi[i] = std::min(b.hi[i], h.s + B[i] * h.tol);
            }
        }
        if (h.reliable)
        {
            b.any_reliable = true;
            if (h.s < b.best)
            {
                b.best          = h.s;
                b.best_tol      = h.tol;
                b.best_feature  = h.feature;
                b.best_distinct = h.distinct;
            }
        }
    }
    for (int i = 0; i < 2 && b.any_reliable; ++i)
    {
        b.phi_valid[i] = true;
        b.phi[i]       = -inf;
        for (const auto& h : H)
        {
            if (h.s - B[i] * h.tol <= b.hi[i])
            {
                if (!h.reliable)
                {
                    b.phi_valid[i] = false; // an ill-conditioned hypothesis may have been selected: no upper bound
                }
                b.phi[i] = std::max(b.phi[i], h.s + B[i] * h.tol);
            }
        }
    }
    return b;
}

verdict_t judge_score(const std::string& who, double score, const std::vector<hyp_t>& H, const bounds_t& b, ctx_t& ctx)
{
    const auto no_fit = nano::wlearner_t::no_fit_score();
    if (!b.any)
    {
        ctx.label(who + ":no-hypothesis");
        return score == no_fit ? verdict_t::ok()
                               : verdict_t::violation(cat("C10/", who, "/fit/score-without-hypothesis"), cat("score=", score, " although no feature offers a hypothesis"));
    }
    if (score == no_fit)
    {
        if (b.any_reliable)
        {
            return verdict_t::violation(cat("C10/", who, "/fit/no-fit-despite-hypotheses"),
                                        cat("fit returned the no-fit score, brute force finds RSS=", static_cast<double>(b.best)));
        }
        ctx.label(who + ":no-fit-degenerate-only");
        return verdict_t::ok();
    }
    if (!std::isfinite(score))
    {
        return verdict_t::violation(cat("C10/", who, "/fit/non-finite-score"), cat("score=", score));
    }
    const ld s = score;
    const ld lo1 = std::max(b.lo[0], static_cast<ld>(score_floor)), lo10 = std::max(b.lo[1], static_cast<ld>(score_floor));
    const ld hi1 = std::max(b.hi[0], static_cast<ld>(score_floor)), hi10 = std::max(b.hi[1], static_cast<ld>(score_floor));
    if (b.all_reliable && b.best_tol > 0)
    {
        // only where no ambiguous (degenerate / ill-conditioned) hypothesis exists: distance of the score to the minimum in units of the tolerance
        ctx.maximum(who + ":|score-bruteforce|/tol", static_cast<double>(std::fabs(s - std::max(b.best, static_cast<ld>(score_floor))) / b.best_tol));
    }
    if (!b.all_reliable)
    {
        // with ambiguous hypotheses around (constant feature, ill-conditioned least squares): how far is the score from the
        // RSS of the nearest hypothesis?
        ld   nearest = std::numeric_limits<ld>::infinity();
        bool degenerate_below = false; // an exactly degenerate hypothesis (affine: constant feature) could explain a noise fit
        for (const auto& h : H)
        {
            if (h.tol > 0)
            {
                nearest = std::min(nearest, std::fabs(s - std::max(h.s, static_cast<ld>(score_floor))) / h.tol);
            }
            degenerate_below = degenerate_below || (h.degenerate && h.s - 10 * h.tol <= s);
        }
        ctx.maximum(who + ":ambiguous:|score-nearest-hypothesis|/tol", static_cast<double>(nearest));
        if (s >= lo10 && s <= hi10 && nearest > 10 && degenerate_below && who == "affine")
        {
            // Accepted interval, but neither reading explains the value: it is not the optimum over the class (best constant on
            // the constant feature) and not the optimum with the constant features skipped. Mechanism: the determinant of the
            // singular normal equations is rounding noise, the coefficients (w, b) are noise / noise.
            return verdict_t::known(sig_affine_noise, cat("score=", score, " is the RSS of an arbitrary constant on a constant feature; brute force: ",
                                                          "best non-degenerate feature ", static_cast<double>(b.best), ", accepted=[", static_cast<double>(lo10), ",",
                                                          static_cast<double>(hi10), "]"));
        }
    }
    ctx.label_if(score == score_floor, (who + ":score-at-floor").c_str());
    if (s >= lo1 && s <= hi1)
    {
        return verdict_t::ok();
    }
    if (s >= lo10 && s <= hi10)
    {
        return verdict_t::borderline(who + ":score");
    }
    const auto msg = cat("score=", score, " brute-force minimum=", static_cast<double>(b.best), " accepted=[", static_cast<double>(lo10), ",", static_cast<double>(hi10), "]");
    return s < lo10 ? verdict_t::violation(cat("C10/", who, "/fit/score-below-minimum"), msg) : verdict_t::violation(cat("C10/", who, "/fit/score-above-minimum"), msg);
}

// ---------------------------------------------------------------------------------------
// access to the fitted parameters
// ---------------------------------------------------------------------------------------
struct params_t
{
    int                        kind{0};
    const nano::tensor4d_t*    tables{nullptr};
    int                        ntables{0};
    int                        feature{-1};             // single-feature learners
    const nano::dtree_nodes_t* nodes{nullptr};          // dtree
    bool                       coefficients{false};     // affine / hinge: tables = (w, b)
};

params_t params_of(int kind, const nano::wlearner_t& w)
{
    params_t p;
    p.kind = kind;
    if (kind == l_dtree)
    {
        const auto& t = dynamic_cast<const nano::dtree_wlearner_t&>(w);
        p.tables      = &t.tables();
        p.nodes       = &t.nodes();
    }
    else
    {
        const auto& s = dynamic_cast<const nano::single_feature_wlearner_t&>(w);
        p.tables      = &s.tables();
        p.feature     = static_cast<int>(s.feature());
    }
    p.ntables      = static_cast<int>(p.tables->size<0>());
    p.coefficients = kind == l_affine || kind == l_hinge;
    return p;
}

double table_at(const params_t& p, int table, int c, int k)
{
    return p.tables->data()[static_cast<size_t>(table) * static_cast<size_t>(k) + static_cast<size_t>(c)];
}

// walk of one sample through the tree: -2 malformed tree, -1 a feature on the path is missing, otherwise the leaf table
int dtree_walk(const env_t& e, const nano::dtree_nodes_t& nodes, int sample)
{
    size_t p = 0;
    for (size_t steps = 0; steps <= nodes.size(); ++steps)
    {
        if (p + 1 >= nodes.size())
        {
            return -2;
        }
        const auto& node = nodes[p];
        if (node.m_feature < 0 || node.m_feature >= static_cast<tensor_size_t>(e.views.size()) || e.views[static_cast<size_t>(node.m_feature)].kind != v_scalar)
        {
            return -2;
        }
        const auto& v = e.views[static_cast<size_t>(node.m_feature)];
        if (v.given[static_cast<size_t>(sample)] == 0)
        {
            return -1;
        }
        const size_t side = v.x[static_cast<size_t>(sample)] < node.m_threshold ? 0 : 1;
        if (node.m_next == 0)
        {
            return static_cast<int>(node.m_table) + static_cast<int>(side);
        }
        p = nodes[p + side].m_next;
    }
    return -2;
}

// mechanism predicate of sig_dtree_crash: split()/predict() hand an empty sample list to a node below the root
bool dtree_crash_predicate(const env_t& e, const nano::dtree_nodes_t& nodes, const std::vector<int>& list)
{
    std::vector<std::pair<size_t, std::vector<int>>> queue;
    queue.emplace_back(0, list);
    for (size_t q = 0; q < queue.size() && q < 4 * nodes.size() + 4; ++q)
    {
        const auto p       = queue[q].first;
        const auto samples = queue[q].second; // copy: the queue grows
        if (samples.empty())
        {
            return true;
        }
        if (p + 1 >= nodes.size())
        {
            return false; // malformed, not this mechanism
        }
        const auto& node = nodes[p];
        if (node.m_next == 0)
        {
            continue;
        }
        if (node.m_feature < 0 || node.m_feature >= static_cast<tensor_size_t>(e.views.size()))
        {
            return false;
        }
        const auto&      v = e.views[static_cast<size_t>(node.m_feature)];
        std::vector<int> side[2];
        std::set<int>    seen;
        for (const auto s : samples)
        {
            if (v.given[static_cast<size_t>(s)] != 0 && seen.insert(s).second)
            {
                side[v.x[static_cast<size_t>(s)] < node.m_threshold ? 0 : 1].push_back(s);
            }
        }
        queue.emplace_back(nodes[p + 0].m_next, side[0]);
        queue.emplace_back(nodes[p + 1].m_next, side[1]);
    }
    return false;
}

// ---------------------------------------------------------------------------------------
// sub-check "optimal"
// ---------------------------------------------------------------------------------------
struct nt_t
{
    bool winner_rich{false}, missing{false}, nonconstant{false};
};

void data_classes(const env_t& e, const base_t& b, ctx_t& ctx, nt_t& nt)
{
    bool any_scalar = false, any_cat = false, ties = false;
    for (const auto& v : e.views)
    {
        any_scalar = any_scalar || v.kind == v_scalar;
        any_cat    = any_cat || is_categorical(v);
        if (v.kind == v_struct)
        {
            continue;
        }
        std::set<double> values;
        int              present = 0;
        for (const auto s : b.fit)
        {
            if (v.given[static_cast<size_t>(s)] == 0)
            {
                nt.missing = true;
            }
            else if (v.kind == v_scalar)
            {
                values.insert(v.x[static_cast<size_t>(s)]);
                present++;
            }
        }
        std::set<int> unique(b.fit.begin(), b.fit.end());
        int           upresent = 0;
        for (const auto s : unique)
        {
            upresent += v.given[static_cast<size_t>(s)] != 0 ? 1 : 0;
        }
        ties = ties || (v.kind == v_scalar && static_cast<int>(values.size()) < upresent);
    }
    for (size_t i = 1; i < b.fit.size(); ++i)
    {
        for (int c = 0; c < e.k; ++c)
        {
            nt.nonconstant = nt.nonconstant || b.grads[static_cast<size_t>(b.fit[i]) * static_cast<size_t>(e.k) + static_cast<size_t>(c)] !=
                                                   b.grads[static_cast<size_t>(b.fit[0]) * static_cast<size_t>(e.k) + static_cast<size_t>(c)];
        }
    }
    auto sorted = b.fit;
    std::sort(sorted.begin(), sorted.end());
    const bool repeats = std::adjacent_find(sorted.begin(), sorted.end()) != sorted.end();
    ctx.label_if(!any_scalar, "data:no-scalar-feature");
    ctx.label_if(!any_cat, "data:no-categorical-feature");
    ctx.label_if(nt.missing, "data:missing-values-in-fit-samples");
    ctx.label_if(ties, "data:ties-in-a-scalar-feature");
    ctx.label_if(repeats, "fit-list:repeats");
    ctx.label_if(static_cast<int>(sorted.size()) < e.n && !repeats, "fit-list:subset");
    ctx.label_if(!nt.nonconstant, "grads:constant");
    ctx.label(cat("outputs:", e.k));
    ctx.label_if(b.threads >= 2, "threads>=2");
}

verdict_t check_optimal(const opt_case_t& c, ctx_t& ctx)
{
    const auto& b = c.base;
    if (!valid_base(b))
    {
        return verdict_t::discard("malformed-case");
    }
    std::string stage = "setup";
    try
    {
        const auto e     = make_env(b, b.threads);
        const auto grads = to_grads(b.data, b.grads);
        const auto fit   = to_indices(b.fit);
        const auto fd    = make_fitdata(e, b.fit, b.grads);
        nt_t       nt;
        data_classes(e, b, ctx, nt);

        bool      known_dstep = false;
        verdict_t pending_known;
        const bool           refit_first = (b.data.samples % 2) == 0;
        std::optional<env_t> ealt;
        if (refit_first)
        {
            auto balt      = b;
            balt.gen_order = b.gen_order + 1;
            ealt.emplace(make_env(balt, 1));
            ctx.label("learner-fitted-on-another-dataset-before");
        }
        for (const int kind : {l_stump, l_hinge, l_affine, l_dense, l_dstep})
        {
            const std::string who = lname(kind);
            stage                 = who + "/fit";
            if (kind == l_dstep && dstep_crash_predicate(e, b.fit))
            {
                ctx.label("dstep:categorical-feature-without-given-value");
                const auto outcome = probe(
                    [&]
                    {
                        const auto e1 = make_env(b, 1);
                        auto       w1 = make_wlearner(kind, 0);
                        w1->fit(*e1.dataset, fit, grads);
                    });
                if (outcome == probe_t::crashed)
                {
                    known_dstep = true;
                    continue;
                }
                if (outcome == probe_t::inconclusive)
                {
                    return verdict_t::discard("probe-inconclusive");
                }
            }
            auto       w     = make_wlearner(kind, 0);
            if (refit_first)
            {
                // the learner object has a history: it was fitted before on ANOTHER dataset with the same number of features
                // (the same data with the generators registered in another order); the fit below must not depend on it
                w->fit(*ealt->dataset, fit, grads);
            }
            const auto score = w->fit(*e.dataset, fit, grads);
            const auto H     = brute(kind, fd);
            const auto bnd   = make_bounds(H);
            const auto v     = judge_score(who, score, H, bnd, ctx);
            if (v.kind == kind_t::known)
            {
                pending_known = v; // keep checking the remaining learners, report at the end
            }
            else if (!v.is_ok())
            {
                return v;
            }
            if (score == nano::wlearner_t::no_fit_score())
            {
                ctx.label(who + ":no-fit");
                continue;
            }
            ctx.label(who + ":fitted");

            // the fitted learner's own predictions reproduce the minimum
            stage            = who + "/predict";
            const auto prm   = params_of(kind, *w);
            const auto preds = w->predict(*e.dataset, fit);
            if (prm.feature < 0 || prm.feature >= static_cast<int>(e.views.size()))
            {
                return verdict_t::violation(cat("C10/", who, "/fit/selected-feature-out-of-range"), cat("feature=", prm.feature));
            }
            const auto& view = e.views[static_cast<size_t>(prm.feature)];
            ld          P = 0, Tp = 0;
            for (size_t i = 0; i < b.fit.size(); ++i)
            {
                const auto s = b.fit[i];
                for (int cc = 0; cc < e.k; ++cc)
                {
                    const ld p   = preds.data()[i * static_cast<size_t>(e.k) + static_cast<size_t>(cc)];
                    const ld d   = fd.r(s, cc) - p;
                    ld       mag = std::fabs(fd.r(s, cc)) + std::fabs(p);
                    if (prm.coefficients && prm.ntables == 2 && view.given[static_cast<size_t>(s)] != 0)
                    {
                        mag += std::fabs(static_cast<ld>(table_at(prm, 0, cc, e.k)) * static_cast<ld>(view.x[static_cast<size_t>(s)])) +
                               std::fabs(static_cast<ld>(table_at(prm, 1, cc, e.k)));
                    }
                    P += d * d;
                    Tp += mag * mag;
                }
            }
            Tp *= 1e3 * eps;
            const ld B[2] = {1, 10};
            int      band = 2;
            for (int i = 1; i >= 0; --i)
            {
                const bool low_ok  = P >= bnd.lo[i] - B[i] * Tp;
                const bool high_ok = !bnd.phi_valid[i] || P <= bnd.phi[i] + B[i] * Tp;
                if (low_ok && high_ok)
                {
                    band = i;
                }
            }
            ctx.label_if(!bnd.phi_valid[1], (who + ":predict-rss-upper-bound-skipped(ill-conditioned)").c_str());
            if (band == 2)
            {
                return verdict_t::violation(cat("C10/", who, "/predict/rss-not-reproduced"),
                                            cat("RSS of the predictions=", static_cast<double>(P), " score=", score, " brute-force minimum=", static_cast<double>(bnd.best),
                                                " feature=", prm.feature));
            }
            if (band == 1)
            {
                return verdict_t::borderline(who + ":predict-rss");
            }
            if (bnd.all_reliable && bnd.best_tol + Tp > 0)
            {
                ctx.maximum(who + ":|predict-rss-bruteforce|/tol", static_cast<double>(std::fabs(P - bnd.best) / (bnd.best_tol + Tp)));
            }

            // classes
            const bool rich = bnd.best_distinct >= ((kind == l_dense || kind == l_dstep) ? 2 : 3);
            nt.winner_rich  = nt.winner_rich || rich;
            ctx.label_if(rich, (who + ":winner-rich").c_str());
            bool winner_missing = false;
            for (const auto s : b.fit)
            {
                winner_missing = winner_missing || view.given[static_cast<size_t>(s)] == 0;
            }
            ctx.label_if(winner_missing, (who + ":missing-values-in-selected-feature").c_str());
            if (kind == l_affine)
            {
                // how often the strict reading (a constant feature fits a constant) would beat the accepted upper bound
                ctx.label_if(bnd.lo[0] + 1e-6 * (fd.G2 + 1) < bnd.hi[0] && static_cast<ld>(score) > bnd.lo[0] + 1e-6 * (fd.G2 + 1),
                             "affine:constant-feature-would-win-but-is-skipped");
            }
        }
        if (pending_known.kind == kind_t::known)
        {
            return pending_known;
        }
        if (known_dstep)
        {
            return verdict_t::known(sig_dstep_crash, "dstep_table_wlearner_t::fit crashes (forked probe) when a categorical feature has no given value among the fit samples");
        }
        ctx.nontrivial = nt.winner_rich && nt.missing && nt.nonconstant;
        return verdict_t::ok();
    }
    catch (const std::exception& ex)
    {
        return verdict_t::violation(cat("C10/exception/", stage), ex.what());
    }
}

// ---------------------------------------------------------------------------------------
// sub-check "consistency"
// ---------------------------------------------------------------------------------------
struct tolcmp_t
{
    int         band{0}; // 0 ok, 1 borderline, 2 violation
    std::string what;
};

void compare(tolcmp_t& r, double got, double want, double mag, const std::string& what)
{
    const auto diff = std::fabs(got - want);
    if (!(diff <= 1e-12 * mag) && !(got == want))
    {
        const int band = (diff <= 1e-11 * mag) ? 1 : 2;
        if (band > r.band)
        {
            r.band = band;
            r.what = cat(what, ": got ", got, " expected ", want);
        }
    }
}

struct fitted_t
{
    int               kind{0};
    nano::rwlearner_t w;
};

// magnitude of the terms of a prediction (per sample and output) and the expected prediction from split() + tables
struct expect_t
{
    double value{0}, mag{0};
};

expect_t expected(const env_t& e, const params_t& p, int group, int sample, int c)
{
    expect_t x;
    if (group < 0)
    {
        return x;
    }
    if (p.coefficients)
    {
        const auto& v  = e.views[static_cast<size_t>(p.feature)];
        const auto  w  = table_at(p, 0, c, e.k), b = table_at(p, 1, c, e.k);
        const auto  xv = v.x[static_cast<size_t>(sample)];
        x.value        = w * xv + b;
        x.mag          = std::fabs(w * xv) + std::fabs(b);
    }
    else
    {
        x.value = table_at(p, group, c, e.k);
        x.mag   = std::fabs(x.value);
    }
    return x;
}

verdict_t check_consistency(const con_case_t& c, ctx_t& ctx)
{
    const auto& b = c.base;
    if (!valid_base(b) || c.lists.empty() || c.prefill.empty() || c.scales.empty() || c.merge_keys.empty() || c.criterion < 0 || c.criterion > 3 ||
        c.depth < 1 || c.depth > 10 || c.min_split < 1 || c.min_split > 10 || c.grads2.size() != b.grads.size())
    {
        return verdict_t::discard("malformed-case");
    }
    for (const auto& l : c.lists)
    {
        if (l.empty())
        {
            return verdict_t::discard("malformed-case");
        }
        for (const auto s : l)
        {
            if (s < 0 || s >= b.data.samples)
            {
                return verdict_t::discard("malformed-case");
            }
        }
    }
    for (const auto s : c.scales)
    {
        if (!(s >= 0.0) || !std::isfinite(s))
        {
            return verdict_t::discard("malformed-case");
        }
    }
    std::string stage = "setup";
    try
    {
        const auto e      = make_env(b, b.threads);
        const auto grads  = to_grads(b.data, b.grads);
        const auto grads2 = to_grads(b.data, c.grads2);
        const auto fit    = to_indices(b.fit);
        const auto k      = static_cast<size_t>(e.k);
        nt_t       nt;
        data_classes(e, b, ctx, nt);
        ctx.label(cat("criterion:", c.criterion));

        std::vector<int> all(static_cast<size_t>(e.n));
        for (int i = 0; i < e.n; ++i)
        {
            all[static_cast<size_t>(i)] = i;
        }
        auto lists = c.lists;
        lists.push_back(all);
        lists.push_back(b.fit);

        bool known_dstep = false, known_dtree = false, dtree_probed_ok = false;
        int  dstep_probe = -1; // -1 not probed, 0 crashes, 1 survives

        const auto fit_guarded = [&](int kind, nano::wlearner_t& w, const tensor4d_t& g, double& score) -> bool
        {
            if (kind == l_dstep && dstep_crash_predicate(e, b.fit))
            {
                ctx.label("dstep:categorical-feature-without-given-value");
                if (dstep_probe < 0)
                {
                    const auto outcome = probe(
                        [&]
                        {
                            const auto e1 = make_env(b, 1);
                            auto       w1 = make_wlearner(kind, c.criterion);
                            w1->fit(*e1.dataset, fit, g);
                        });
                    if (outcome == probe_t::inconclusive)
                    {
                        throw std::runtime_error("probe-inconclusive");
                    }
                    dstep_probe = outcome == probe_t::crashed ? 0 : 1;
                }
                if (dstep_probe == 0)
                {
                    known_dstep = true;
                    return false;
                }
            }
            score = w.fit(*e.dataset, fit, g);
            return true;
        };

        // is it safe to hand this list to this tree?
        const auto dtree_safe = [&](const nano::wlearner_t& w, const params_t& p, const std::vector<int>& list) -> bool
        {
            if (p.kind != l_dtree || dtree_probed_ok || !dtree_crash_predicate(e, *p.nodes, list))
            {
                return true;
            }
            ctx.label("dtree:list-leaves-a-branch-empty");
            if (!known_dtree)
            {
                const auto samples = to_indices(list);
                const auto outcome = probe(
                    [&]
                    {
                        (void)w.split(*e.dataset, samples);
                        (void)w.predict(*e.dataset, samples);
                    });
                if (outcome == probe_t::inconclusive)
                {
                    throw std::runtime_error("probe-inconclusive");
                }
                if (outcome == probe_t::survived)
                {
                    dtree_probed_ok = true;
                    return true;
                }
                known_dtree = true;
            }
            return false;
        };

        std::vector<fitted_t> pool; // merge candidates
        bool                  any_rich = false;

        for (const int kind : {l_affine, l_stump, l_hinge, l_dense, l_kbest, l_ksplit, l_dstep, l_dtree})
        {
            const std::string who = lname(kind);
            stage                 = who + "/fit";
            auto   w              = make_wlearner(kind, c.criterion, c.depth, c.min_split);
            double score          = 0.0;
            if (!fit_guarded(kind, *w, grads, score))
            {
                continue;
            }
            if (score == nano::wlearner_t::no_fit_score())
            {
                ctx.label(who + ":no-fit");
                continue;
            }
            if (std::isnan(score))
            {
                return verdict_t::violation(cat("C10/", who, "/fit/non-finite-score"), cat("score=", score));
            }
            ctx.label(who + ":fitted");
            const auto prm = params_of(kind, *w);

            // selected features
            stage            = who + "/features";
            const auto feats = w->features();
            for (tensor_size_t i = 0; i < feats.size(); ++i)
            {
                if (feats(i) < 0 || feats(i) >= static_cast<tensor_size_t>(e.views.size()))
                {
                    return verdict_t::violation(cat("C10/", who, "/features/out-of-range"), cat("feature=", feats(i)));
                }
            }
            if (kind != l_dtree && (feats.size() != 1 || feats(0) != prm.feature))
            {
                return verdict_t::violation(cat("C10/", who, "/features/mismatch"));
            }
            if (prm.coefficients && prm.ntables != 2)
            {
                return verdict_t::violation(cat("C10/", who, "/tables/shape"), cat("tables=", prm.ntables));
            }
            if (kind == l_dtree)
            {
                ctx.label(prm.nodes->size() > 2 ? "dtree:depth>=2-fitted" : "dtree:single-split-fitted");
            }
            else
            {
                const auto& view = e.views[static_cast<size_t>(prm.feature)];
                std::set<std::string> labels;
                std::set<double>      values;
                for (const auto s : b.fit)
                {
                    if (view.given[static_cast<size_t>(s)] != 0)
                    {
                        labels.insert(view.label[static_cast<size_t>(s)]);
                        values.insert(view.x[static_cast<size_t>(s)]);
                    }
                }
                any_rich = any_rich || (is_categorical(view) ? labels.size() >= 2 : values.size() >= 3);
            }

            // per list: split, predict from zero, predict into pre-filled outputs
            std::map<int, std::vector<double>> by_sample; // prediction of a sample, first seen
            std::vector<double>                mag_by_sample(static_cast<size_t>(e.n), 0.0);
            tolcmp_t                           cmp;
            for (size_t li = 0; li < lists.size(); ++li)
            {
                const auto& list = lists[li];
                stage            = who + "/split";
                if (!dtree_safe(*w, prm, list))
                {
                    continue;
                }
                const auto samples = to_indices(list);
                const auto cluster = w->split(*e.dataset, samples);
                if (cluster.samples() != e.n)
                {
                    return verdict_t::violation(cat("C10/", who, "/split/size"), cat("samples()=", cluster.samples()));
                }
                stage             = who + "/predict";
                const auto zero   = w->predict(*e.dataset, samples);
                auto       filled = tensor4d_t{zero.dims()};
                if (zero.size() != static_cast<tensor_size_t>(list.size() * k))
                {
                    return verdict_t::violation(cat("C10/", who, "/predict/shape"));
                }
                for (size_t i = 0; i < list.size() * k; ++i)
                {
                    filled.data()[i] = c.prefill[(i + li) % c.prefill.size()];
                }
                w->predict(*e.dataset, samples, filled.tensor());

                for (size_t i = 0; i < list.size(); ++i)
                {
                    const int  s     = list[i];
                    const auto group = static_cast<int>(cluster.group(s));
                    if (group < -1 || group >= (prm.coefficients ? 1 : prm.ntables))
                    {
                        return verdict_t::violation(cat("C10/", who, "/split/group-out-of-range"), cat("group=", group, " tables=", prm.ntables));
                    }
                    // selected feature missing (reference data) => no contribution
                    bool missing = false;
                    if (kind == l_dtree)
                    {
                        missing = dtree_walk(e, *prm.nodes, s) == -1;
                    }
                    else
                    {
                        missing = e.views[static_cast<size_t>(prm.feature)].given[static_cast<size_t>(s)] == 0;
                    }
                    for (size_t cc = 0; cc < k; ++cc)
                    {
                        const auto z   = zero.data()[i * k + cc];
                        const auto f   = filled.data()[i * k + cc];
                        const auto pre = c.prefill[(i * k + cc + li) % c.prefill.size()];
                        if (missing && (z != 0.0 || f != pre))
                        {
                            return verdict_t::violation(cat("C10/", who, "/predict/nonzero-for-missing-feature"),
                                                        cat("sample ", s, ": prediction ", z, ", pre-filled output ", pre, " became ", f));
                        }
                        const auto x = expected(e, prm, group, s, static_cast<int>(cc));
                        compare(cmp, z, x.value, x.mag, cat("predict-vs-split-table sample ", s));
                        compare(cmp, f, pre + x.value, std::fabs(pre) + x.mag, cat("predict-adds-to-outputs sample ", s));
                        mag_by_sample[static_cast<size_t>(s)] = std::max(mag_by_sample[static_cast<size_t>(s)], x.mag);
                    }
                    if (cmp.band == 2)
                    {
                        const bool adds = cmp.what.rfind("predict-adds", 0) == 0;
                        return verdict_t::violation(cat("C10/", who, adds ? "/predict/not-added-to-outputs" : "/predict/differs-from-split-table"), cmp.what);
                    }
                    // depends only on the sample
                    std::vector<double> mine(zero.data() + i * k, zero.data() + (i + 1) * k);
                    const auto          it = by_sample.find(s);
                    if (it == by_sample.end())
                    {
                        by_sample[s] = mine;
                    }
                    else
                    {
                        tolcmp_t dep;
                        for (size_t cc = 0; cc < k; ++cc)
                        {
                            compare(dep, mine[cc], it->second[cc], mag_by_sample[static_cast<size_t>(s)], cat("sample ", s, " in list ", li, " position ", i));
                        }
                        if (dep.band == 2)
                        {
                            return verdict_t::violation(cat("C10/", who, "/predict/depends-on-the-list"), dep.what);
                        }
                        cmp.band = std::max(cmp.band, dep.band);
                    }
                }
            }
            if (cmp.band == 1)
            {
                return verdict_t::borderline(who + ":predict");
            }

            // scale: scalar and per group
            stage = who + "/scale";
            {
                const auto& list = lists[0];
                if (dtree_safe(*w, prm, list))
                {
                    const auto samples = to_indices(list);
                    const auto cluster = w->split(*e.dataset, samples);
                    const auto before  = w->predict(*e.dataset, samples);
                    const int  groups  = prm.coefficients ? 1 : prm.ntables;
                    for (int mode = 0; mode < 2; ++mode)
                    {
                        if (mode == 1 && groups < 1)
                        {
                            continue;
                        }
                        auto           scaled = w->clone();
                        nano::vector_t sv(mode == 0 ? 1 : groups);
                        for (tensor_size_t g = 0; g < sv.size(); ++g)
                        {
                            sv(g) = c.scales[(static_cast<size_t>(g) + static_cast<size_t>(mode) + static_cast<size_t>(kind)) % c.scales.size()];
                        }
                        scaled->scale(sv);
                        const auto prm2  = params_of(kind, *scaled);
                        const auto after = scaled->predict(*e.dataset, samples);
                        tolcmp_t   sc;
                        for (size_t i = 0; i < list.size(); ++i)
                        {
                            const auto group  = static_cast<int>(cluster.group(list[i]));
                            const auto factor = group < 0 ? 1.0 : sv(std::min<tensor_size_t>(group, sv.size() - 1));
                            for (size_t cc = 0; cc < k; ++cc)
                            {
                                const auto x = expected(e, prm, group, list[i], static_cast<int>(cc));
                                compare(sc, after.data()[i * k + cc], factor * before.data()[i * k + cc], factor * x.mag + std::fabs(before.data()[i * k + cc]) * factor,
                                        cat(mode == 0 ? "scalar" : "per-group", " scale ", factor, " sample ", list[i]));
                            }
                        }
                        (void)prm2;
                        if (sc.band == 2)
                        {
                            return verdict_t::violation(cat("C10/", who, mode == 0 ? "/scale/scalar" : "/scale/per-group"), sc.what);
                        }
                        if (sc.band == 1)
                        {
                            return verdict_t::borderline(who + ":scale");
                        }
                    }
                }
            }

            // merge candidates: this learner, the same learner fitted to other gradients, a scaled clone
            stage = who + "/fit2";
            pool.push_back({kind, w->clone()});
            {
                auto   w2     = make_wlearner(kind, c.criterion, c.depth, c.min_split);
                double score2 = 0.0;
                if (fit_guarded(kind, *w2, grads2, score2) && score2 != nano::wlearner_t::no_fit_score())
                {
                    pool.push_back({kind, std::move(w2)});
                }
                auto           w3 = w->clone();
                nano::vector_t half(1);
                half(0) = 0.5;
                w3->scale(half);
                pool.push_back({kind, std::move(w3)});
            }
        }

        // a tree of depth 1 equals a stump
        stage = "dtree1";
        {
            auto       stump  = make_wlearner(l_stump, c.criterion);
            auto       tree   = make_wlearner(l_dtree, c.criterion, 1, c.min_split);
            const auto sscore = stump->fit(*e.dataset, fit, grads);
            const auto tscore = tree->fit(*e.dataset, fit, grads);
            const auto no_fit = nano::wlearner_t::no_fit_score();
            if ((sscore == no_fit) != (tscore == no_fit))
            {
                return verdict_t::violation("C10/dtree1/fit/one-fits-the-other-does-not", cat("stump score=", sscore, " tree score=", tscore));
            }
            if (sscore != no_fit)
            {
                ctx.label("dtree1:compared-with-stump");
                if (!(std::fabs(sscore - tscore) <= 1e-12 * (std::fabs(sscore) + std::fabs(tscore))))
                {
                    return verdict_t::violation("C10/dtree1/fit/score-differs-from-stump", cat("stump score=", sscore, " tree score=", tscore));
                }
                const auto& st    = dynamic_cast<const nano::stump_wlearner_t&>(*stump);
                const auto& tr    = dynamic_cast<const nano::dtree_wlearner_t&>(*tree);
                const auto& nodes = tr.nodes();
                if (nodes.size() != 2 || tr.tables().size<0>() != 2)
                {
                    return verdict_t::violation("C10/dtree1/fit/not-a-single-split", cat("nodes=", nodes.size(), " tables=", tr.tables().size<0>()));
                }
                if (nodes[0].m_feature == st.feature() && nodes[0].m_threshold == st.threshold())
                {
                    for (const auto& list : lists)
                    {
                        const auto samples = to_indices(list);
                        const auto ps      = stump->predict(*e.dataset, samples);
                        const auto pt      = tree->predict(*e.dataset, samples);
                        tolcmp_t   d1;
                        for (size_t i = 0; i < list.size() * k; ++i)
                        {
                            compare(d1, pt.data()[i], ps.data()[i], std::fabs(ps.data()[i]), cat("sample ", list[i / k]));
                        }
                        if (d1.band == 2)
                        {
                            return verdict_t::violation("C10/dtree1/predict/differs-from-stump", d1.what);
                        }
                        if (d1.band == 1)
                        {
                            return verdict_t::borderline("dtree1:predict");
                        }
                    }
                }
                else
                {
                    ctx.label("dtree1:tie-resolved-to-another-split"); // equal scores, different optimal split (thread schedule): predictions not comparable
                }
            }
        }

        // merging a list of learners keeps the sum of their predictions
        stage = "merge";
        if (!pool.empty())
        {
            std::vector<size_t> order(pool.size());
            for (size_t i = 0; i < order.size(); ++i)
            {
                order[i] = i;
            }
            std::stable_sort(order.begin(), order.end(),
                             [&](size_t a, size_t bb) { return c.merge_keys[a % c.merge_keys.size()] < c.merge_keys[bb % c.merge_keys.size()]; });
            nano::rwlearners_t wlearners;
            for (const auto i : order)
            {
                wlearners.push_back(std::move(pool[i].w));
            }
            // the list of all samples reaches every branch of every tree (it contains the fit samples)
            const auto          samples = to_indices(all);
            const auto          total   = static_cast<size_t>(e.n) * k;
            std::vector<double> before(total, 0.0), mags(total, 0.0), after(total, 0.0);
            for (const auto& w : wlearners)
            {
                const auto kindw = dynamic_cast<const nano::affine_wlearner_t*>(w.get()) != nullptr  ? l_affine
                                   : dynamic_cast<const nano::hinge_wlearner_t*>(w.get()) != nullptr ? l_hinge
                                   : dynamic_cast<const nano::dtree_wlearner_t*>(w.get()) != nullptr ? l_dtree
                                                                                                     : l_dense; // any table-like single-feature learner
                const auto prm   = params_of(kindw, *w);
                if (!dtree_safe(*w, prm, all))
                {
                    throw std::runtime_error("the list of all samples leaves a tree branch empty");
                }
                const auto p = w->predict(*e.dataset, samples);
                for (size_t i = 0; i < total; ++i)
                {
                    before[i] += p.data()[i];
                    double mag = std::fabs(p.data()[i]);
                    if (prm.coefficients && prm.ntables == 2 && e.views[static_cast<size_t>(prm.feature)].given[i / k] != 0)
                    {
                        mag = std::fabs(table_at(prm, 0, static_cast<int>(i % k), e.k) * e.views[static_cast<size_t>(prm.feature)].x[i / k]) +
                              std::fabs(table_at(prm, 1, static_cast<int>(i % k), e.k));
                    }
                    mags[i] += mag;
                }
            }
            const auto count_before = wlearners.size();
            nano::wlearner::merge(wlearners);
            ctx.label_if(wlearners.size() < count_before, "merge:some-learners-merged");
            ctx.label_if(wlearners.size() == count_before, "merge:nothing-merged");
            for (const auto& w : wlearners)
            {
                if (!w)
                {
                    return verdict_t::violation("C10/merge/null-learner-left-in-the-list");
                }
                const auto p = w->predict(*e.dataset, samples);
                for (size_t i = 0; i < total; ++i)
                {
                    after[i] += p.data()[i];
                }
            }
            tolcmp_t mg;
            for (size_t i = 0; i < total; ++i)
            {
                compare(mg, after[i], before[i], mags[i], cat("sample ", i / k, " output ", i % k, " (", count_before, " -> ", wlearners.size(), " learners)"));
            }
            if (mg.band == 2)
            {
                return verdict_t::violation("C10/merge/sum-of-predictions-changed", mg.what);
            }
            if (mg.band == 1)
            {
                return verdict_t::borderline("merge");
            }
        }

        if (known_dtree)
        {
            return verdict_t::known(sig_dtree_crash, "dtree_wlearner_t::split/predict crash (forked probe) for a sample list that leaves one branch of the tree empty");
        }
        if (known_dstep)
        {
            return verdict_t::known(sig_dstep_crash, "dstep_table_wlearner_t::fit crashes (forked probe) when a categorical feature has no given value among the fit samples");
        }
        ctx.nontrivial = any_rich && nt.missing && nt.nonconstant;
        return verdict_t::ok();
    }
    catch (const std::exception& ex)
    {
        if (std::string(ex.what()) == "probe-inconclusive")
        {
            return verdict_t::discard("probe-inconclusive");
        }
        return verdict_t::violation(cat("C10/exception/", stage), ex.what());
    }
}
} // namespace

// Shrinking a failing case re-runs the check for every candidate (tens of thousands of candidates for the large
// case structures here).  After the first violation of a sub-check at most `shrink_budget` further evaluations are
// judged; the rest is answered "ok" so that rapidcheck stops at the smallest failing case found so far (which the
// driver then replays in a fresh process).  No effect on runs without a violation and on --replay.
constexpr int shrink_budget = 3000;

template <class tcase, class tcheck>
std::function<verdict_t(const tcase&, ctx_t&)> budgeted(tcheck check)
{
    auto after_failure = std::make_shared<int>(-1);
    return [check, after_failure](const tcase& c, ctx_t& ctx)
    {
        if (*after_failure >= 0 && ++(*after_failure) > shrink_budget)
        {
            return verdict_t::ok();
        }
        auto v = check(c, ctx);
        if (v.kind == kind_t::violation && *after_failure < 0)
        {
            *after_failure = 0;
        }
        return v;
    };
}

int main(int argc, char** argv)
{
    suite_t suite("C10");
    suite.add<opt_case_t>("optimal", gen_opt_case, budgeted<opt_case_t>(check_optimal), 1.0);
    suite.add<con_case_t>("consistency", gen_con_case, budgeted<con_case_t>(check_consistency), 1.0);
    return suite.main(argc, argv);
}
