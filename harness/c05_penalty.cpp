// C05 — linear / quadratic penalty and augmented Lagrangian functions equal their defining formulas with matching
// (sub)gradients; augmented-Lagrangian solver: `converged` implies feasibility within epsilon and the stored
// constraint values equal the recomputed ones (DESIGN.md section 5, C05; notes/C05.md).
//
// sub-checks
//   function : objective x 0..8 constraints of the 11 kinds x point x penalty x multipliers, against the formulas
//   solver   : solver_augmented_lagrangian_t on generated LPs/QPs (through make_function) and ball/box problems
#include "c05_ref.h"

#include <nano/core/verif.h>
#include <nano/function/penalty.h>
#include <nano/function/program.h>
#include <nano/solver/augmented.h>

using namespace verif;
using c05::cdata_t;
using c05::ceval_t;
using c05::MatrixXd;
using c05::VectorXd;

namespace
{
constexpr double eps = std::numeric_limits<double>::epsilon();
constexpr double K   = 1e3; // "up to rounding": 1e3 * eps * sum of magnitudes

// ---------------------------------------------------------------------------------------
// registered smooth objectives
// ---------------------------------------------------------------------------------------
const std::vector<std::string>& smooth_ids()
{
    static const std::vector<std::string> ids = []
    {
        std::vector<std::string> out;
        const auto&              factory = nano::function_t::all();
        for (const auto& id : factory.ids())
        {
            if (factory.get(id)->smooth())
            {
                out.push_back(id);
            }
        }
        return out;
    }();
    return ids;
}

nano::rfunction_t make_registered(const std::string& id, const int dims)
{
    const auto proto = nano::function_t::all().get(id);
    if (!proto)
    {
        return nullptr;
    }
    return proto->make(dims, 10);
}

// ---------------------------------------------------------------------------------------
// constraints as plain case data
// ---------------------------------------------------------------------------------------
struct cset_t
{
    std::vector<int>                 kind, dim, inner;
    std::vector<double>              value;
    std::vector<std::vector<double>> vec, mat;

    template <class A>
    void io(A& a)
    {
        a("c_kind", kind);
        a("c_dim", dim);
        a("c_inner", inner);
        a("c_value", value);
        a("c_vec", vec);
        a("c_mat", mat);
    }

    size_t size() const { return kind.size(); }
};

// false: malformed / outside the domain (reason set)
bool to_cdata(const cset_t& s, const int n, std::vector<cdata_t>& out, std::string& reason)
{
    const size_t count = s.kind.size();
    if (s.dim.size() != count || s.inner.size() != count || s.value.size() != count || s.vec.size() != count || s.mat.size() != count)
    {
        reason = "malformed-case";
        return false;
    }
    for (size_t i = 0; i < count; ++i)
    {
        cdata_t c;
        c.kind  = s.kind[i];
        c.dim   = s.dim[i];
        c.inner = s.inner[i];
        c.value = s.value[i];
        if (c.kind < 0 || c.kind >= c05::k_count || c.inner < 0 || c.inner > 1 || !std::isfinite(c.value))
        {
            reason = "malformed-case";
            return false;
        }
        const bool needs_dim = c.kind <= c05::k_maximum;
        const bool needs_vec = !needs_dim;
        const bool needs_mat = c.kind == c05::k_quad_eq || c.kind == c05::k_quad_ineq || (c.kind >= c05::k_func_eq && c.inner == 0);
        if (needs_dim && (c.dim < 0 || c.dim >= n))
        {
            reason = "malformed-case";
            return false;
        }
        if (needs_vec)
        {
            if (s.vec[i].size() != static_cast<size_t>(n))
            {
                reason = "malformed-case";
                return false;
            }
            c.v = Eigen::Map<const VectorXd>(s.vec[i].data(), n);
            if (!c.v.allFinite())
            {
                reason = "non-finite-data";
                return false;
            }
        }
        if (needs_mat)
        {
            if (s.mat[i].size() != static_cast<size_t>(n) * static_cast<size_t>(n))
            {
                reason = "malformed-case";
                return false;
            }
            c.P.resize(n, n);
            for (int r = 0; r < n; ++r)
            {
                for (int q = 0; q < n; ++q)
                {
                    // symmetric by construction (the upper triangle is mirrored), except for the library's own quadratic
                    // constraints with inner == 1: there the matrix is used as generated (general, NOT symmetric P: nothing in
                    // the library requires symmetry, convex()/strong_convexity() use a general eigen-decomposition)
                    const bool general = (c.kind == c05::k_quad_eq || c.kind == c05::k_quad_ineq) && c.inner == 1;
                    const int  lo = std::min(r, q), hi = std::max(r, q);
                    c.P(r, q)     = general ? s.mat[i][static_cast<size_t>(r * n + q)] : s.mat[i][static_cast<size_t>(lo * n + hi)];
                }
            }
            if (!c.P.allFinite())
            {
                reason = "non-finite-data";
                return false;
            }
        }
        if ((c.kind == c05::k_ball_eq || c.kind == c05::k_ball_ineq) && !(c.value > 0.0))
        {
            reason = "non-positive-radius";
            return false;
        }
        out.push_back(std::move(c));
    }
    return true;
}

// =======================================================================================
// sub-check `function`
// =======================================================================================
struct fcase_t
{
    std::string         objective; // empty: generated quadratic 1/2 x'Hx + g.x + r, else the id of a registered smooth function
    int                 n{1};
    bool                integers{false};
    std::vector<double> H, g;
    double              r{0.0};
    cset_t              cs;
    std::vector<double> x;
    double              penalty{1.0};
    std::vector<double> lambda, miu; // 8 each, consumed in registration order

    template <class A>
    void io(A& a)
    {
        a("objective", objective);
        a("n", n);
        a("integers", integers);
        a("H", H);
        a("g", g);
        a("r", r);
        cs.io(a);
        a("x", x);
        a("penalty", penalty);
        a("lambda", lambda);
        a("miu", miu);
    }
};

rc::Gen<double> gen_coef(const bool integers, const double range)
{
    return integers ? gen::smallint(-static_cast<int>(range), static_cast<int>(range)) : gen::sym(range);
}

// generates one constraint; when `at` is given (feasible-by-construction mode) its constant is adjusted so that the
// constraint holds at that point (equalities: value 0 up to rounding, exactly 0 with integer data)
void gen_constraint(cset_t& s, const int n, const bool integers, const VectorXd* at, const int kind)
{
    const auto vecn = [&](double range) { return *rc::gen::container<std::vector<double>>(static_cast<size_t>(n), gen_coef(integers, range)); };
    int                 dim = 0, inner = 0;
    double              value = 0.0;
    std::vector<double> vec, mat;
    if (kind <= c05::k_maximum)
    {
        dim   = *gen::range<int>(0, n - 1);
        value = *gen_coef(integers, 5.0);
    }
    else if (kind == c05::k_ball_eq || kind == c05::k_ball_ineq)
    {
        vec   = vecn(3.0);
        value = integers ? *gen::smallint(1, 6) : *gen::logu(1e-1, 8.0);
    }
    else
    {
        vec   = vecn(3.0);
        value = *gen_coef(integers, 5.0);
        // functional: which wrapped function; quadratic: 1 = general (non-symmetric) P
        inner = (kind >= c05::k_func_eq) ? *gen::range<int>(0, 1) : ((kind == c05::k_quad_eq || kind == c05::k_quad_ineq) && *gen::chance(35) ? 1 : 0);
        if (kind == c05::k_quad_eq || kind == c05::k_quad_ineq || (kind >= c05::k_func_eq && inner == 0))
        {
            // symmetric P of either definiteness: generated upper triangle (mirrored on use), or +-D'D
            const int style = *gen::range<int>(0, 2);
            mat.assign(static_cast<size_t>(n * n), 0.0);
            if (style == 0)
            {
                mat = *rc::gen::container<std::vector<double>>(static_cast<size_t>(n * n), gen_coef(integers, 2.0));
            }
            else
            {
                const auto D = *rc::gen::container<std::vector<double>>(static_cast<size_t>(n * n), gen_coef(integers, integers ? 1.0 : 1.5));
                for (int i = 0; i < n; ++i)
                {
                    for (int j = i; j < n; ++j)
                    {
                        double q = 0.0;
                        for (int k = 0; k < n; ++k)
                        {
                            q += D[static_cast<size_t>(k * n + i)] * D[static_cast<size_t>(k * n + j)];
                        }
                        mat[static_cast<size_t>(i * n + j)] = style == 1 ? q : -q;
                    }
                }
            }
        }
    }
    if (at != nullptr)
    {
        cset_t one;
        one.kind  = {kind};
        one.dim   = {dim};
        one.inner = {inner};
        one.value = {value};
        one.vec   = {vec};
        one.mat   = {mat};
        std::vector<cdata_t> cd;
        std::string          reason;
        if (to_cdata(one, n, cd, reason))
        {
            const auto   e     = c05::evaluate(cd[0], *at);
            const bool   eq    = c05::is_eq(kind);
            const double slack = eq ? 0.0 : (*gen::chance(30) ? 0.0 : (integers ? *gen::smallint(1, 4) : *gen::logu(1e-3, 5.0)));
            switch (kind)
            {
            case c05::k_constant: value = (*at)(dim); break;
            case c05::k_minimum: value = (*at)(dim) - slack; break;
            case c05::k_maximum: value = (*at)(dim) + slack; break;
            case c05::k_ball_eq:
            case c05::k_ball_ineq:
            {
                const double d2 = e.v + value * value; // |x - o|^2
                value           = std::sqrt(d2) + slack;
                if (!(value > 0.0))
                {
                    value = 1.0;
                }
                break;
            }
            default:
                // v = (...) + value  (linear / quadratic / functional-quadratic);  v = (...) - value  (functional-l1)
                if (kind >= c05::k_func_eq && inner == 1)
                {
                    value = value + e.v + slack;
                }
                else
                {
                    value = value - e.v - slack;
                }
                break;
            }
        }
    }
    s.kind.push_back(kind);
    s.dim.push_back(dim);
    s.inner.push_back(inner);
    s.value.push_back(value);
    s.vec.push_back(std::move(vec));
    s.mat.push_back(std::move(mat));
}

rc::Gen<fcase_t> gen_fcase()
{
    return rc::gen::exec(
        []()
        {
            fcase_t c;
            c.integers = *gen::chance(35);
            c.n        = *gen::range<int>(1, 8);
            if (*gen::chance(50))
            {
                const auto& ids = smooth_ids();
                c.objective     = ids[static_cast<size_t>(*gen::range<int>(0, static_cast<int>(ids.size()) - 1))];
                const auto fn   = make_registered(c.objective, c.n);
                c.n             = static_cast<int>(fn->size());
            }
            const int n = c.n;
            c.H = *rc::gen::container<std::vector<double>>(static_cast<size_t>(n * n), gen_coef(c.integers, 3.0));
            c.g = *rc::gen::container<std::vector<double>>(static_cast<size_t>(n), gen_coef(c.integers, 5.0));
            c.r = *gen_coef(c.integers, 5.0);
            c.x = *rc::gen::container<std::vector<double>>(static_cast<size_t>(n), gen_coef(c.integers, 5.0));

            const VectorXd xx       = Eigen::Map<const VectorXd>(c.x.data(), n);
            const int      count    = *gen::range<int>(0, 8);
            const int      feasible = *gen::range<int>(0, 2); // 0: arbitrary, 1: every constraint holds at x, 2: mixed
            for (int i = 0; i < count; ++i)
            {
                const bool fix = feasible == 1 || (feasible == 2 && *gen::chance(50));
                gen_constraint(c.cs, n, c.integers, fix ? &xx : nullptr, *gen::range<int>(0, c05::k_count - 1));
            }
            c.penalty = *gen::chance(20) ? *rc::gen::element(1e-3, 1.0, 1e6) : *gen::logu(1e-3, 1e6);
            if (*gen::chance(15))
            {
                c.lambda.assign(8, 0.0);
                c.miu.assign(8, 0.0);
            }
            else
            {
                c.lambda = *rc::gen::container<std::vector<double>>(8, gen_coef(c.integers, 10.0));
                // "any multiplier values": mostly mu >= 0 (what the solver maintains), a third of the cases with negative entries too
                c.miu = *gen::chance(33) ? *rc::gen::container<std::vector<double>>(8, gen_coef(c.integers, 10.0))
                                         : *rc::gen::container<std::vector<double>>(8, c.integers ? gen::smallint(0, 10) : gen::real(0.0, 10.0));
            }
            return c;
        });
}

struct pen_ref_t
{
    double   value{0.0};
    double   vmag{0.0}; // magnitude of the terms of the value
    VectorXd grad;
    VectorXd gmag;      // magnitude of the terms of each gradient component
};

// box-constrained least squares min |r - W t|, lo <= t <= hi (W: n x K, K <= 8): every face of the box is tried
// (each t_j at its lower bound, at its upper bound, or free), the free part solved by QR; the best admissible
// candidate is returned.  Exact up to rounding, unlike an iterative scheme.
VectorXd box_lsq(const MatrixXd& W, const VectorXd& r, const VectorXd& lo, const VectorXd& hi)
{
    const int Kc = static_cast<int>(W.cols());
    VectorXd  best = lo;
    double    best_norm = (r - W * lo).norm();
    int       total = 1;
    for (int j = 0; j < Kc; ++j)
    {
        total *= 3;
    }
    std::vector<int> state(static_cast<size_t>(Kc), 0);
    for (int code = 0; code < total; ++code)
    {
        int              rest = code;
        std::vector<int> free_idx;
        VectorXd         t(Kc);
        for (int j = 0; j < Kc; ++j)
        {
            const int sj = rest % 3;
            rest /= 3;
            if (sj == 0)
            {
                t(j) = lo(j);
            }
            else if (sj == 1)
            {
                t(j) = hi(j);
            }
            else
            {
                t(j) = 0.0;
                free_idx.push_back(j);
            }
        }
        if (!free_idx.empty())
        {
            MatrixXd Wf(W.rows(), static_cast<long>(free_idx.size()));
            VectorXd rf = r;
            for (int j = 0; j < Kc; ++j)
            {
                if (std::find(free_idx.begin(), free_idx.end(), j) == free_idx.end())
                {
                    rf -= W.col(j) * t(j);
                }
            }
            for (size_t f = 0; f < free_idx.size(); ++f)
            {
                Wf.col(static_cast<long>(f)) = W.col(free_idx[f]);
            }
            const VectorXd tf = Wf.colPivHouseholderQr().solve(rf);
            bool           inside = tf.allFinite();
            for (size_t f = 0; f < free_idx.size() && inside; ++f)
            {
                const int j = free_idx[f];
                inside      = tf(static_cast<long>(f)) >= lo(j) && tf(static_cast<long>(f)) <= hi(j);
                t(j)        = tf(static_cast<long>(f));
            }
            if (!inside)
            {
                continue;
            }
        }
        const double norm = (r - W * t).norm();
        if (norm < best_norm)
        {
            best_norm = norm;
            best      = t;
        }
    }
    return best;
}

// compares one library result with the reference; `kinks`: directions (columns of W, multipliers in [lo, hi]) that
// may be added to the reference gradient (sub-differential of the linear penalty at a kink)
verdict_t compare(const std::string& what, const pen_ref_t& ref, const double lib_v0, const double lib_v1, const VectorXd& lib_g,
                  const MatrixXd& W, const VectorXd& lo, const VectorXd& hi, ctx_t& ctx)
{
    const double vtol = K * eps * ref.vmag;
    verdict_t    worst;
    const auto   worse = [&](verdict_t v)
    {
        if (worst.kind == kind_t::ok || (worst.kind == kind_t::borderline && v.kind == kind_t::violation))
        {
            worst = std::move(v);
        }
    };
    for (const double lv : {lib_v0, lib_v1})
    {
        const double d = std::fabs(lv - ref.value);
        if (!(d <= vtol)) // also catches NaN
        {
            ctx.maximum(what + " value error / allowance", vtol > 0.0 ? d / vtol : 1e300);
            if (!(d <= 10.0 * vtol))
            {
                worse(verdict_t::violation("C05/" + what + "/value", cat("library ", lv, " formula ", ref.value, " difference ", d, " allowed ", vtol)));
            }
            else
            {
                worse(verdict_t::borderline("C05/" + what + "/value"));
            }
        }
        else if (vtol > 0.0)
        {
            ctx.maximum(what + " value error / allowance", d / vtol);
        }
    }
    VectorXd rest = lib_g - ref.grad;
    if (W.cols() > 0)
    {
        // weighted by the per-component allowance, so that a component with large terms (e.g. a huge objective
        // gradient whose rounding is 1e-7 absolute) cannot push its rounding onto a component with tiny terms
        VectorXd weight(rest.size());
        double   floor_tol = 0.0;
        for (Eigen::Index k = 0; k < rest.size(); ++k)
        {
            floor_tol = std::max(floor_tol, K * eps * ref.gmag(k));
        }
        floor_tol = std::max(floor_tol * 1e-12, 1e-290);
        for (Eigen::Index k = 0; k < rest.size(); ++k)
        {
            weight(k) = 1.0 / std::max(K * eps * ref.gmag(k), floor_tol);
        }
        const MatrixXd Ww = weight.asDiagonal() * W;
        const VectorXd rw = weight.cwiseProduct(rest);
        const VectorXd t  = box_lsq(Ww, rw, lo, hi);
        rest -= W * t;
    }
    for (Eigen::Index k = 0; k < rest.size(); ++k)
    {
        const double gtol = K * eps * ref.gmag(k);
        const double d    = std::fabs(rest(k));
        if (!(d <= gtol))
        {
            ctx.maximum(what + " gradient error / allowance", gtol > 0.0 ? d / gtol : 1e300);
            if (!(d <= 10.0 * gtol))
            {
                worse(verdict_t::violation("C05/" + what + "/gradient",
                                           cat("component ", k, ": library ", lib_g(k), " formula ", ref.grad(k), W.cols() > 0 ? " (+ sub-differential of the kinks)" : "",
                                               " residual ", d, " allowed ", gtol)));
            }
            else
            {
                worse(verdict_t::borderline("C05/" + what + "/gradient"));
            }
        }
        else if (gtol > 0.0)
        {
            ctx.maximum(what + " gradient error / allowance", d / gtol);
        }
    }
    return worst;
}

verdict_t check_fcase(const fcase_t& c, ctx_t& ctx)
{
    nano::verif::rng_state().store(0x9e3779b97f4a7c15ULL ^ fnv1a(c.objective));
    const int n = c.n;
    if (n < 1 || n > 64 || c.x.size() != static_cast<size_t>(n) || c.lambda.size() != 8 || c.miu.size() != 8 || c.cs.size() > 8)
    {
        return verdict_t::discard("malformed-case");
    }
    const VectorXd x = Eigen::Map<const VectorXd>(c.x.data(), n);
    if (!x.allFinite() || x.cwiseAbs().maxCoeff() > 5.0 || !(c.penalty >= 1e-3 && c.penalty <= 1e6))
    {
        return verdict_t::discard("point-or-penalty-outside-domain");
    }
    for (size_t i = 0; i < 8; ++i)
    {
        if (!(std::fabs(c.lambda[i]) <= 10.0) || !(std::fabs(c.miu[i]) <= 10.0))
        {
            return verdict_t::discard("multiplier-outside-domain");
        }
    }

    // ---- objective -----------------------------------------------------------------------
    nano::rfunction_t fn;
    double            f = 0.0, fmag = 0.0;
    VectorXd          gf(n), gfmag(n);
    if (c.objective.empty())
    {
        if (c.H.size() != static_cast<size_t>(n * n) || c.g.size() != static_cast<size_t>(n) || !std::isfinite(c.r))
        {
            return verdict_t::discard("malformed-case");
        }
        MatrixXd H(n, n);
        for (int i = 0; i < n; ++i)
        {
            for (int j = 0; j < n; ++j)
            {
                H(i, j) = c.H[static_cast<size_t>(std::min(i, j) * n + std::max(i, j))];
            }
        }
        const VectorXd g = Eigen::Map<const VectorXd>(c.g.data(), n);
        if (!H.allFinite() || !g.allFinite())
        {
            return verdict_t::discard("non-finite-data");
        }
        fn = std::make_unique<c05::quadratic_function_t>(H, g, c.r, false);
        cdata_t q;
        q.kind  = c05::k_quad_eq;
        q.P     = H;
        q.v     = g;
        q.value = c.r;
        const auto e = c05::evaluate(q, x);
        f = e.v, fmag = e.a, gf = e.g, gfmag = e.b;
        ctx.label("objective-generated-quadratic");
    }
    else
    {
        fn = make_registered(c.objective, n);
        if (!fn || fn->size() != n)
        {
            return verdict_t::discard("unknown-objective");
        }
        nano::vector_t gx(n);
        f = fn->vgrad(c05::to_nano(x), gx);
        gf    = c05::from_nano(gx);
        fmag  = std::fabs(f);
        gfmag = gf.cwiseAbs();
        if (!std::isfinite(f) || !gf.allFinite())
        {
            return verdict_t::discard("objective-not-finite-at-x");
        }
        ctx.label("objective-registered");
    }

    // ---- constraints ---------------------------------------------------------------------
    std::vector<cdata_t> cds;
    std::string          reason;
    if (!to_cdata(c.cs, n, cds, reason))
    {
        return verdict_t::discard(reason);
    }
    std::vector<ceval_t> ev;
    int                  neq = 0, nineq = 0, violated = 0, satisfied = 0;
    bool                 feasible = true;
    for (const auto& cd : cds)
    {
        if (!fn->constrain(c05::make_constraint(cd)))
        {
            return verdict_t::violation("C05/function/constraint-rejected", cat("a compatible ", c05::kind_name(cd.kind), " constraint was rejected"));
        }
        ev.push_back(c05::evaluate(cd, x));
        ctx.label(std::string("kind-") + c05::kind_name(cd.kind));
        ctx.label_if((cd.kind == c05::k_quad_eq || cd.kind == c05::k_quad_ineq) && cd.inner == 1, "quadratic-constraint-non-symmetric-P");
        if (c05::is_eq(cd.kind))
        {
            ++neq;
            feasible = feasible && ev.back().v == 0.0;
        }
        else
        {
            ++nineq;
            (ev.back().v > 0.0 ? violated : satisfied)++;
            feasible = feasible && ev.back().v <= 0.0;
        }
    }
    if (static_cast<size_t>(nano::count_equalities(*fn)) != static_cast<size_t>(neq) ||
        static_cast<size_t>(nano::count_inequalities(*fn)) != static_cast<size_t>(nineq))
    {
        return verdict_t::violation("C05/function/constraint-count", "count_equalities / count_inequalities disagree with the registered kinds");
    }
    ctx.label_if(cds.empty(), "no-constraints");
    ctx.label_if(feasible && !cds.empty(), "feasible-point");
    ctx.label_if(c.integers, "integer-data");

    VectorXd lambda(neq), miu(nineq);
    for (int i = 0; i < neq; ++i)
    {
        lambda(i) = c.lambda[static_cast<size_t>(i)];
    }
    for (int i = 0; i < nineq; ++i)
    {
        miu(i) = c.miu[static_cast<size_t>(i)];
    }
    const bool zero_multipliers = lambda.cwiseAbs().sum() + miu.cwiseAbs().sum() == 0.0;
    ctx.label_if(zero_multipliers, "zero-multipliers");

    const double   rho = c.penalty;
    const VectorXd none_lo, none_hi;
    const MatrixXd none_W(n, 0);
    verdict_t      worst;
    const auto     merge = [&](verdict_t v)
    {
        if (v.kind == kind_t::violation && worst.kind != kind_t::violation)
        {
            worst = std::move(v);
        }
        else if (v.kind == kind_t::borderline && worst.kind == kind_t::ok)
        {
            worst = std::move(v);
        }
    };
    // half of the cases evaluate a copy of the penalty object (what a solver working on function.clone() sees): derived from the
    // generated point, so that old replay files keep their meaning
    const bool via_clone = (static_cast<long long>(std::floor(std::fabs(x(0)) * 1e6)) % 2) == 1;
    ctx.label_if(via_clone, "evaluated-through-clone");
    const auto call = [&](const nano::function_t& original, double& v0, double& v1, VectorXd& g)
    {
        const auto     cloned = via_clone ? original.clone() : nano::rfunction_t{};
        const auto&    q      = via_clone ? *cloned : original;
        const auto     xn = c05::to_nano(x);
        nano::vector_t gx(n);
        v0 = q.vgrad(xn);
        v1 = q.vgrad(xn, gx);
        g  = c05::from_nano(gx);
        ctx.label_if(v0 != v1 && !(std::isnan(v0) && std::isnan(v1)), "value-only-call-differs-in-rounding");
    };

    try
    {
        // ---- linear penalty: f + c (sum |h| + sum max(0, g)) ---------------------------------
        {
            pen_ref_t ref;
            ref.value = f, ref.vmag = fmag, ref.grad = gf, ref.gmag = gfmag;
            std::vector<VectorXd> kdir;
            std::vector<double>   klo, khi;
            for (size_t j = 0; j < cds.size(); ++j)
            {
                const auto& e    = ev[j];
                const bool  eq   = c05::is_eq(cds[j].kind);
                const bool  kink = std::fabs(e.v) <= K * eps * e.a;
                ref.vmag += rho * e.a;
                ref.gmag += rho * e.b;
                if (kink)
                {
                    // value contribution is below the allowance; any multiplier of the sub-differential is accepted
                    ref.value += eq ? rho * std::fabs(e.v) : rho * std::max(0.0, e.v);
                    kdir.push_back(rho * e.g);
                    klo.push_back(eq ? -1.0 : 0.0);
                    khi.push_back(1.0);
                }
                else if (eq || e.v > 0.0)
                {
                    ref.value += rho * std::fabs(e.v);
                    ref.grad += rho * (e.v > 0.0 ? 1.0 : -1.0) * e.g;
                }
            }
            MatrixXd W(n, static_cast<long>(kdir.size()));
            VectorXd lo(static_cast<long>(kdir.size())), hi(static_cast<long>(kdir.size()));
            for (size_t j = 0; j < kdir.size(); ++j)
            {
                W.col(static_cast<long>(j)) = kdir[j];
                lo(static_cast<long>(j))    = klo[j];
                hi(static_cast<long>(j))    = khi[j];
            }
            ctx.label_if(!kdir.empty(), "linear-penalty-at-a-kink");
            auto q = nano::linear_penalty_function_t{*fn};
            q.penalty(rho);
            double   v0 = 0.0, v1 = 0.0;
            VectorXd g;
            call(q, v0, v1, g);
            merge(compare("linear-penalty", ref, v0, v1, g, W, lo, hi, ctx));
            if (feasible)
            {
                const double d = std::max(std::fabs(v0 - f), std::fabs(v1 - f));
                if (!(d <= 10.0 * K * eps * ref.vmag)) // same allowance as the formula: the library may see g = +1 ulp
                {
                    merge(verdict_t::violation("C05/linear-penalty/feasible-point", cat("penalty ", v1, " objective ", f)));
                }
            }
        }
        // ---- quadratic penalty: f + c (sum h^2 + sum max(0, g)^2) ---------------------------
        {
            pen_ref_t ref;
            ref.value = f, ref.vmag = fmag, ref.grad = gf, ref.gmag = gfmag;
            for (size_t j = 0; j < cds.size(); ++j)
            {
                const auto& e = ev[j];
                ref.vmag += rho * e.a * e.a;
                ref.gmag += 2.0 * rho * e.a * e.b;
                if (c05::is_eq(cds[j].kind) || e.v > 0.0)
                {
                    ref.value += rho * e.v * e.v;
                    ref.grad += 2.0 * rho * e.v * e.g;
                }
            }
            auto q = nano::quadratic_penalty_function_t{*fn};
            q.penalty(rho);
            double   v0 = 0.0, v1 = 0.0;
            VectorXd g;
            call(q, v0, v1, g);
            merge(compare("quadratic-penalty", ref, v0, v1, g, none_W, none_lo, none_hi, ctx));
            if (feasible)
            {
                const double d = std::max(std::fabs(v0 - f), std::fabs(v1 - f));
                if (!(d <= 10.0 * K * eps * ref.vmag)) // same allowance as the formula: the library may see g = +1 ulp
                {
                    merge(verdict_t::violation("C05/quadratic-penalty/feasible-point", cat("penalty ", v1, " objective ", f)));
                }
            }
        }
        // ---- augmented Lagrangian: f + rho/2 (sum (h + l/rho)^2 + sum max(0, g + m/rho)^2) ----
        for (const bool zero : {false, true})
        {
            const VectorXd lam = zero ? VectorXd::Zero(neq).eval() : lambda;
            const VectorXd mu  = zero ? VectorXd::Zero(nineq).eval() : miu;
            pen_ref_t      ref;
            ref.value = f, ref.vmag = fmag, ref.grad = gf, ref.gmag = gfmag;
            int ie = 0, ii = 0;
            for (size_t j = 0; j < cds.size(); ++j)
            {
                const auto&  e  = ev[j];
                const bool   eq = c05::is_eq(cds[j].kind);
                const double m  = eq ? lam(ie++) : mu(ii++);
                const double s  = e.v + m / rho;
                const double sa = e.a + std::fabs(m) / rho;
                ref.vmag += 0.5 * rho * sa * sa;
                ref.gmag += rho * sa * e.b;
                if (eq || s > 0.0)
                {
                    ref.value += 0.5 * rho * s * s;
                    ref.grad += rho * s * e.g;
                }
            }
            const auto lam_n = c05::to_nano(lam);
            const auto mu_n  = c05::to_nano(mu);
            auto       q     = nano::augmented_lagrangian_function_t{*fn, lam_n, mu_n};
            q.penalty(rho);
            double   v0 = 0.0, v1 = 0.0;
            VectorXd g;
            call(q, v0, v1, g);
            merge(compare(zero ? "augmented-lagrangian-zero-multipliers" : "augmented-lagrangian", ref, v0, v1, g, none_W, none_lo, none_hi, ctx));
            if (feasible && zero)
            {
                const double d = std::max(std::fabs(v0 - f), std::fabs(v1 - f));
                if (!(d <= 10.0 * K * eps * ref.vmag)) // same allowance as the formula: the library may see g = +1 ulp
                {
                    merge(verdict_t::violation("C05/augmented-lagrangian/feasible-point", cat("penalty ", v1, " objective ", f)));
                }
            }
        }
    }
    catch (const std::exception& e)
    {
        return verdict_t::violation("C05/exception/function", e.what());
    }

    ctx.nontrivial = neq >= 1 && violated >= 1 && satisfied >= 1;
    return worst;
}

// =======================================================================================
// sub-check `solver`
// =======================================================================================
struct acase_t
{
    int                 family{0}; // 0: LP/QP through make_function(program), 1: quadratic with ball / box / linear-equality constraints
    int                 n{1}, p{0}, m{1}, rank{0};
    bool                boxed{false};      // family 0: bounding box rows around x*
    std::vector<double> D, xstar, A, vstar, G, ustar, slack, bslack;
    std::vector<int>    act;
    // family 1
    std::vector<double> g;                 // linear part of the objective 1/2 x'(D'D + delta I)x + g.x
    double              delta{1.0};
    int                 ball{0};           // 0 none, 1 inequality, 2 equality
    std::vector<double> origin;
    double              radius{1.0};
    bool                box{false};
    std::vector<double> lo, width;         // box [lo, lo + width]
    bool                lineq{false};
    std::vector<double> q;
    double              qr{0.0};
    double              epsilon{1e-8};
    std::vector<double> x0;

    template <class A_>
    void io(A_& a)
    {
        a("family", family);
        a("n", n);
        a("p", p);
        a("m", m);
        a("rank", rank);
        a("boxed", boxed);
        a("D", D);
        a("xstar", xstar);
        a("A", A);
        a("vstar", vstar);
        a("G", G);
        a("ustar", ustar);
        a("slack", slack);
        a("bslack", bslack);
        a("act", act);
        a("g", g);
        a("delta", delta);
        a("ball", ball);
        a("origin", origin);
        a("radius", radius);
        a("box", box);
        a("lo", lo);
        a("width", width);
        a("lineq", lineq);
        a("q", q);
        a("qr", qr);
        a("epsilon", epsilon);
        a("x0", x0);
    }
};

rc::Gen<acase_t> gen_acase()
{
    return rc::gen::exec(
        []()
        {
            acase_t c;
            c.family = *gen::chance(35) ? 1 : 0;
            c.n      = *gen::range<int>(1, 6);
            const int n = c.n;
            const auto vec = [](int count, double r) { return *gen::vec(static_cast<size_t>(count), r); };
            c.epsilon = *gen::chance(25) ? *rc::gen::element(1e-10, 1e-8, 1e-6, 1e-4) : *gen::logu(1e-10, 1e-4);
            c.x0      = vec(n, 5.0);
            if (c.family == 0)
            {
                c.p     = *gen::range<int>(0, n - 1);
                c.m     = *gen::range<int>(1, n + 2);
                c.rank  = *gen::chance(35) ? 0 : *gen::range<int>(1, n);
                c.boxed = *gen::chance(c.rank < n ? 80 : 20);
                c.D     = vec(c.rank * n, 1.5);
                c.xstar = vec(n, 3.0);
                c.A     = vec(c.p * n, 1.0);
                c.G     = vec(c.m * n, 1.0);
                const int k = *gen::range<int>(0, std::min(c.m, n - c.p + 1));
                for (int i = 0; i < c.p; ++i)
                {
                    c.vstar.push_back(*gen::sym(3.0));
                }
                for (int i = 0; i < c.m; ++i)
                {
                    c.act.push_back(i < k ? 1 : 0);
                    c.ustar.push_back(*gen::logu(1e-2, 10.0));
                    c.slack.push_back(*gen::logu(1e-2, 10.0));
                }
                for (int i = 0; i < 2 * n; ++i)
                {
                    c.bslack.push_back(*gen::logu(1e-1, 10.0));
                }
            }
            else
            {
                c.rank   = *gen::range<int>(0, n);
                c.D      = vec(c.rank * n, 1.5);
                c.delta  = *gen::logu(1e-2, 10.0);
                c.g      = vec(n, 5.0);
                c.ball   = *gen::range<int>(0, 2);
                c.origin = vec(n, 2.0);
                c.radius = *gen::logu(0.2, 5.0);
                c.box    = c.ball == 0 || *gen::chance(50);
                c.lo     = vec(n, 3.0);
                c.width  = *rc::gen::container<std::vector<double>>(static_cast<size_t>(n), gen::logu(0.1, 5.0));
                c.lineq  = n >= 2 && *gen::chance(50);
                c.q      = vec(n, 1.0);
                c.qr     = *gen::sym(1.0);
            }
            return c;
        });
}

verdict_t check_acase(const acase_t& c, ctx_t& ctx)
{
    nano::verif::rng_state().store(0x51ed270b1f6d3c07ULL);
    const int  n  = c.n;
    const auto sz = [](int a, int b) { return static_cast<size_t>(a) * static_cast<size_t>(b); };
    if (n < 1 || n > 12 || c.x0.size() != sz(n, 1) || !(c.epsilon >= 1e-10 && c.epsilon <= 1e-4) || c.family < 0 || c.family > 1)
    {
        return verdict_t::discard("malformed-case");
    }
    const VectorXd x0 = Eigen::Map<const VectorXd>(c.x0.data(), n);
    if (!x0.allFinite())
    {
        return verdict_t::discard("non-finite-data");
    }

    // constraint data in registration order (for the recomputation), the function object, and what it needs alive
    std::vector<cdata_t>                                  cds;
    nano::rfunction_t                                     fn;
    std::unique_ptr<nano::program::linear_program_t>      lp;
    std::unique_ptr<nano::program::quadratic_program_t>   qp;
    const auto finite = [](const std::vector<double>& v) { return std::all_of(v.begin(), v.end(), [](double x) { return std::isfinite(x); }); };

    if (c.family == 0)
    {
        const int p = c.p, m = c.m, nb = c.boxed ? 2 * n : 0;
        if (p < 0 || p > n - 1 || m < 1 || c.rank < 0 || c.rank > n || c.D.size() != sz(c.rank, n) || c.xstar.size() != sz(n, 1) ||
            c.A.size() != sz(p, n) || c.vstar.size() != sz(p, 1) || c.G.size() != sz(m, n) || c.act.size() != sz(m, 1) ||
            c.ustar.size() != sz(m, 1) || c.slack.size() != sz(m, 1) || c.bslack.size() != sz(2 * n, 1))
        {
            return verdict_t::discard("malformed-case");
        }
        if (!finite(c.D) || !finite(c.xstar) || !finite(c.A) || !finite(c.vstar) || !finite(c.G) || !finite(c.ustar) || !finite(c.slack) || !finite(c.bslack))
        {
            return verdict_t::discard("non-finite-data");
        }
        const VectorXd xs = Eigen::Map<const VectorXd>(c.xstar.data(), n);
        MatrixXd       Q  = MatrixXd::Zero(n, n);
        if (c.rank > 0)
        {
            MatrixXd D(c.rank, n);
            for (int i = 0; i < c.rank; ++i)
            {
                for (int j = 0; j < n; ++j)
                {
                    D(i, j) = c.D[sz(i, n) + static_cast<size_t>(j)];
                }
            }
            Q = D.transpose() * D;
            Q = (0.5 * (Q + Q.transpose())).eval();
        }
        MatrixXd A(p, n), G(m + nb, n);
        VectorXd h(m + nb), u = VectorXd::Zero(m + nb);
        for (int i = 0; i < p; ++i)
        {
            for (int j = 0; j < n; ++j)
            {
                A(i, j) = c.A[sz(i, n) + static_cast<size_t>(j)];
            }
        }
        const VectorXd b = A * xs;
        for (int i = 0; i < m; ++i)
        {
            for (int j = 0; j < n; ++j)
            {
                G(i, j) = c.G[sz(i, n) + static_cast<size_t>(j)];
            }
            const bool active = c.act[static_cast<size_t>(i)] != 0;
            if (!(c.ustar[static_cast<size_t>(i)] > 0.0) || !(c.slack[static_cast<size_t>(i)] > 0.0))
            {
                return verdict_t::discard("non-positive-slack-or-multiplier");
            }
            h(i) = G.row(i).dot(xs) + (active ? 0.0 : c.slack[static_cast<size_t>(i)]);
            u(i) = active ? c.ustar[static_cast<size_t>(i)] : 0.0;
        }
        for (int i = 0; i < nb; ++i)
        {
            if (!(c.bslack[static_cast<size_t>(i)] > 0.0))
            {
                return verdict_t::discard("non-positive-slack-or-multiplier");
            }
            G.row(m + i).setZero();
            G(m + i, i / 2) = (i % 2 == 0) ? 1.0 : -1.0;
            h(m + i)        = G.row(m + i).dot(xs) + c.bslack[static_cast<size_t>(i)];
        }
        VectorXd cc = -(Q * xs) - G.transpose() * u;
        if (p > 0)
        {
            cc -= A.transpose() * Eigen::Map<const VectorXd>(c.vstar.data(), p);
        }
        for (int i = 0; i < p; ++i)
        {
            cdata_t cd;
            cd.kind  = c05::k_linear_eq;
            cd.v     = A.row(i).transpose();
            cd.value = -b(i);
            cds.push_back(cd);
        }
        for (int i = 0; i < m + nb; ++i)
        {
            cdata_t cd;
            cd.kind  = c05::k_linear_ineq;
            cd.v     = G.row(i).transpose();
            cd.value = -h(i);
            cds.push_back(cd);
        }
        if (c.rank == 0)
        {
            lp = std::make_unique<nano::program::linear_program_t>(c05::to_nano(cc));
            if (p > 0)
            {
                lp->constrain(nano::program::make_equality(c05::to_nano(A), c05::to_nano(b)), nano::program::make_inequality(c05::to_nano(G), c05::to_nano(h)));
            }
            else
            {
                lp->constrain(nano::program::make_inequality(c05::to_nano(G), c05::to_nano(h)));
            }
            fn = nano::make_function(*lp);
            ctx.label("program-LP");
        }
        else
        {
            qp = std::make_unique<nano::program::quadratic_program_t>(c05::to_nano(Q), c05::to_nano(cc));
            if (p > 0)
            {
                qp->constrain(nano::program::make_equality(c05::to_nano(A), c05::to_nano(b)), nano::program::make_inequality(c05::to_nano(G), c05::to_nano(h)));
            }
            else
            {
                qp->constrain(nano::program::make_inequality(c05::to_nano(G), c05::to_nano(h)));
            }
            fn = nano::make_function(*qp);
            ctx.label(c.rank < n ? "program-QP-rank-deficient" : "program-QP-full-rank");
        }
        ctx.label_if(c.boxed, "program-boxed");
    }
    else
    {
        if (c.rank < 0 || c.rank > n || c.D.size() != sz(c.rank, n) || c.g.size() != sz(n, 1) || c.origin.size() != sz(n, 1) || c.lo.size() != sz(n, 1) ||
            c.width.size() != sz(n, 1) || c.q.size() != sz(n, 1) || c.ball < 0 || c.ball > 2)
        {
            return verdict_t::discard("malformed-case");
        }
        if (!finite(c.D) || !finite(c.g) || !finite(c.origin) || !finite(c.lo) || !finite(c.width) || !finite(c.q) || !std::isfinite(c.qr) ||
            !(c.delta > 0.0) || !std::isfinite(c.delta) || !(c.radius > 0.0) || !std::isfinite(c.radius))
        {
            return verdict_t::discard("non-finite-data");
        }
        MatrixXd H = c.delta * MatrixXd::Identity(n, n);
        if (c.rank > 0)
        {
            MatrixXd D(c.rank, n);
            for (int i = 0; i < c.rank; ++i)
            {
                for (int j = 0; j < n; ++j)
                {
                    D(i, j) = c.D[sz(i, n) + static_cast<size_t>(j)];
                }
            }
            H += D.transpose() * D;
            H = (0.5 * (H + H.transpose())).eval();
        }
        fn = std::make_unique<c05::quadratic_function_t>(H, Eigen::Map<const VectorXd>(c.g.data(), n), 0.0, true);
        if (c.lineq)
        {
            cdata_t cd;
            cd.kind  = c05::k_linear_eq;
            cd.v     = Eigen::Map<const VectorXd>(c.q.data(), n);
            cd.value = c.qr;
            if (cd.v.cwiseAbs().maxCoeff() == 0.0)
            {
                return verdict_t::discard("zero-equality-row");
            }
            cds.push_back(cd);
        }
        if (c.ball != 0)
        {
            cdata_t cd;
            cd.kind  = c.ball == 1 ? c05::k_ball_ineq : c05::k_ball_eq;
            cd.v     = Eigen::Map<const VectorXd>(c.origin.data(), n);
            cd.value = c.radius;
            cds.push_back(cd);
        }
        if (c.box)
        {
            for (int i = 0; i < n; ++i)
            {
                if (!(c.width[static_cast<size_t>(i)] > 0.0))
                {
                    return verdict_t::discard("non-positive-slack-or-multiplier");
                }
                cdata_t lo, hi;
                lo.kind = c05::k_minimum, lo.dim = i, lo.value = c.lo[static_cast<size_t>(i)];
                hi.kind = c05::k_maximum, hi.dim = i, hi.value = c.lo[static_cast<size_t>(i)] + c.width[static_cast<size_t>(i)];
                cds.push_back(lo);
                cds.push_back(hi);
            }
        }
        if (cds.empty())
        {
            return verdict_t::discard("no-constraints");
        }
        for (const auto& cd : cds)
        {
            if (!fn->constrain(c05::make_constraint(cd)))
            {
                return verdict_t::violation("C05/solver/constraint-rejected", cat("a compatible ", c05::kind_name(cd.kind), " constraint was rejected"));
            }
        }
        ctx.label(c.ball == 0 ? "box-problem" : (c.ball == 1 ? "ball-inequality-problem" : "ball-equality-problem"));
        ctx.label_if(c.ball != 0 && c.box, "ball-and-box");
        ctx.label_if(c.lineq, "with-linear-equality");
    }

    int neq = 0, nineq = 0;
    for (const auto& cd : cds)
    {
        (c05::is_eq(cd.kind) ? neq : nineq)++;
    }

    // ---- solve -------------------------------------------------------------------------
    nano::solver_state_t state;
    try
    {
        auto solver                         = nano::solver_augmented_lagrangian_t{};
        solver.parameter("solver::epsilon") = c.epsilon;
        // half of the cases run a copy of the configured solver (as ml::params_t::solver() and per-thread copies do)
        const bool via_clone = (static_cast<long long>(std::floor(std::fabs(x0(0)) * 1e6)) % 2) == 1;
        ctx.label_if(via_clone, "solver-used-through-clone");
        const auto cloned = via_clone ? solver.clone() : nano::rsolver_t{};
        state             = (via_clone ? *cloned : static_cast<const nano::solver_t&>(solver)).minimize(*fn, c05::to_nano(x0), nano::logger_t{});
    }
    catch (const std::exception& e)
    {
        return verdict_t::violation("C05/exception/solver", e.what());
    }
    const char* status = state.status() == nano::solver_status::converged   ? "converged"
                         : state.status() == nano::solver_status::max_iters ? "max_iters"
                         : state.status() == nano::solver_status::failed    ? "failed"
                                                                            : "other";
    ctx.label(std::string("status-") + status);
    ctx.label(c.epsilon <= 1e-8 ? "epsilon<=1e-8" : "epsilon>1e-8");
    if (state.status() != nano::solver_status::converged)
    {
        return verdict_t::ok();
    }

    // ---- oracle -------------------------------------------------------------------------
    const VectorXd x = c05::from_nano(state.x());
    if (x.size() != n || !x.allFinite())
    {
        return verdict_t::violation("C05/solver/converged-with-non-finite-point", "x not finite");
    }
    if (state.ceq().size() != neq || state.cineq().size() != nineq)
    {
        return verdict_t::violation("C05/solver/stored-constraint-count", cat("ceq ", state.ceq().size(), " (", neq, "), cineq ", state.cineq().size(), " (", nineq, ")"));
    }
    verdict_t  worst;
    const auto merge = [&](verdict_t v)
    {
        if (v.kind == kind_t::violation && worst.kind != kind_t::violation)
        {
            worst = std::move(v);
        }
        else if (v.kind == kind_t::borderline && worst.kind == kind_t::ok)
        {
            worst = std::move(v);
        }
    };
    int    ie = 0, ii = 0;
    double hmax = 0.0, gmax = 0.0, amax = 0.0;
    for (const auto& cd : cds)
    {
        const auto   e      = c05::evaluate(cd, x);
        const bool   eq     = c05::is_eq(cd.kind);
        const double stored = eq ? state.ceq()(ie++) : state.cineq()(ii++);
        const double infeas = eq ? std::fabs(e.v) : std::max(0.0, e.v);
        const double round  = K * eps * e.a;
        amax                = std::max(amax, e.a);
        (eq ? hmax : gmax)  = std::max(eq ? hmax : gmax, infeas);
        ctx.maximum("infeasibility / epsilon", infeas / c.epsilon);
        if (infeas > c.epsilon + round)
        {
            // epsilon is the property's own bound: only the rounding of the recomputation is added
            merge(verdict_t::violation(std::string("C05/solver/converged-but-infeasible/") + (eq ? "equality" : "inequality"),
                                       cat(c05::kind_name(cd.kind), ": ", eq ? "|h|" : "max(0,g)", " = ", infeas, " > epsilon = ", c.epsilon)));
        }
        const double d = std::fabs(stored - e.v);
        if (!(d <= round))
        {
            if (!(d <= 10.0 * round))
            {
                merge(verdict_t::violation(std::string("C05/solver/stored-constraint-value/") + (eq ? "equality" : "inequality"),
                                           cat(c05::kind_name(cd.kind), ": stored ", stored, " recomputed ", e.v, " allowed ", round)));
            }
            else
            {
                merge(verdict_t::borderline("C05/solver/stored-constraint-value"));
            }
        }
    }
    const double t1 = state.kkt_optimality_test1(), t2 = state.kkt_optimality_test2();
    const double round = K * eps * amax;
    if (!(std::fabs(t1 - gmax) <= 10.0 * round) || !(std::fabs(t2 - hmax) <= 10.0 * round))
    {
        merge(verdict_t::violation("C05/solver/stored-feasibility-residual",
                                   cat("kkt test1 ", t1, " recomputed ", gmax, ", kkt test2 ", t2, " recomputed ", hmax, " allowed ", round)));
    }
    ctx.nontrivial = neq >= 1 && nineq >= 1;
    return worst;
}
} // namespace

int main(int argc, char** argv)
{
    suite_t suite("C05");
    suite.add<fcase_t>("function", gen_fcase, check_fcase, 0.9);
    suite.add<acase_t>("solver", gen_acase, check_acase, 0.1);
    return suite.main(argc, argv);
}
