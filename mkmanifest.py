#!/usr/bin/env python3
"""Regenerates MANIFEST.json from checks.py (run after editing checks.py)."""
import json, os, subprocess, sys
VERIF = os.path.dirname(os.path.abspath(__file__))
sys.path.insert(0, VERIF)
from checks import CHECKS

props = [json.loads(l) for l in open(os.path.join(VERIF, "properties.jsonl"))]
hooks = subprocess.run(["git", "-C", "/repo", "log", "--format=%h %s", "--grep=^verif hook"], stdout=subprocess.PIPE, text=True).stdout.strip().splitlines()

manifest = {
    "version": 1,
    "setup_cmd": "./check --setup",
    "hooks": {
        "guard": "NANO_VERIF",
        "enable": "-DNANO_VERIF, set by /verif/CMakeLists.txt which compiles /repo/src/**/*.cpp of the current working tree into one static library per flavour (plain g++, asan clang, tsan clang)",
        "baseline_off_cmd": "cmake --build /repo/_build -j16 && ctest --test-dir /repo/_build -j8 --timeout 900",
        "source_commits": [h.split()[0] for h in hooks],
        "add_only": True,
    },
    "engines": [
        {"name": "rapidcheck-harness", "path": "harness/", "serves_properties": sorted(CHECKS), "kind_free_text": "one rapidcheck executable per property: generators + explicit oracle + shrinking + text replay files (harness/common.h)"},
        {"name": "libfuzzer-targets", "path": "fuzz/", "serves_properties": sorted(p for p, c in CHECKS.items() if c.get("fuzzers")), "kind_free_text": "coverage-guided libFuzzer targets (ASan+UBSan) with the semantic oracle inside the target"},
        {"name": "driver", "path": "check", "serves_properties": sorted(CHECKS), "kind_free_text": "python driver: rebuilds from /repo's working tree, runs harness processes in parallel, replays and confirms failures 3x, matches KNOWN_FINDINGS.txt, writes evidence"},
    ],
    "checks": [],
    "not_applicable": [],
    "notes": "All checks are generated-input search against explicit oracles (property-based testing / fuzzing); see DESIGN.md. Known findings: KNOWN_FINDINGS.txt.",
}
for p in props:
    pid = p["id"]
    if pid in CHECKS:
        c = CHECKS[pid]
        manifest["checks"].append({
            "property_id": pid,
            "quick_cmd": "./check %s --tier quick" % pid,
            "thorough_cmd": "./check %s --tier thorough" % pid,
            "evidence_file": "evidence/%s.json" % pid,
            "replay_cmd_template": "./check %s --replay {path}" % pid,
            "engine": "rapidcheck-harness" + ("+libfuzzer-targets" if c.get("fuzzers") else ""),
            "level_claimed": {"category": "exploration", "text": c["level_text"], "design_ref": "DESIGN.md section 5, " + pid},
            "level_note": c["level_note"],
            "technique": c["technique"],
        })
    else:
        manifest["not_applicable"].append({"property_id": pid, "reason": "check not built yet (work in progress; designed in DESIGN.md section 5) - not claimed"})
json.dump(manifest, open(os.path.join(VERIF, "MANIFEST.json"), "w"), indent=1)
print("MANIFEST.json: %d checks, %d not claimed" % (len(manifest["checks"]), len(manifest["not_applicable"])))
