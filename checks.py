"""Loads the per-property configuration files cfg/<ID>.py (each defines CHECK = {...}).

harness entry: exe (target name = harness/<exe>.cpp), flavour (plain|asan|tsan),
cases (quick, thorough) = total generated cases over all processes, procs (quick, thorough),
subs = sub-check names served by this executable (to route replay files), optional size/args.
"""
import glob
import os
import runpy

CHECKS = {}
for _path in sorted(glob.glob(os.path.join(os.path.dirname(os.path.abspath(__file__)), "cfg", "C*.py"))):
    CHECKS[os.path.basename(_path)[:-3]] = runpy.run_path(_path)["CHECK"]
