#!/bin/bash
# usage: tools/run_mutants.sh <ID> <mutants-file> : runs every mutant, appends to notes/<ID>_mutants.txt
id=$1; file=$2; out=/verif/notes/${id}_mutants.txt
echo "# $(date -u +%FT%TZ) quick tier, VERIF_SEED=1, commit $(git -C /verif rev-parse --short HEAD)" >> $out
while IFS='|' read -r name spec; do
  [ -z "$name" ] && continue
  res=$(cd /verif && tools/mut.py $id "$spec" 2>&1 | grep -E "^(CAUGHT|MISSED|ERROR)|violation sig|ERROR" | head -4 | tr '\n' ' ' | cut -c1-400)
  echo "$name | $res" >> $out
done < $file
