#!/bin/bash
# usage: tools/confirm_seed.sh <seed-dir containing patch.diff + demo.cpp> [extra demo sources...]
# Confirms in the scratch worktree /var/tmp/seedchk (full build tree _b): the change compiles, the whole
# existing suite still passes with it, the demonstration fails with it and passes without it.
dir=$(readlink -f $1); shift
W=${SEEDCHK:-/var/tmp/seedchk}
T=/var/tmp/seedtmp.$$; mkdir -p $T
cd $W || exit 2
git checkout -q -- . && git apply $dir/patch.diff || { echo "RESULT patch does not apply"; exit 1; }
LIBS="_b/src/liblinear.a _b/src/libmachine.a _b/src/libsolver.a _b/src/libfunction.a _b/src/libprogram.a _b/src/libcore.a"
build_demo() { g++ -std=c++17 -O1 -DNDEBUG -I include -I src -I _b -I /usr/include/eigen3 $dir/demo.cpp "$@" $LIBS -lpthread -o $T/seed_demo.$1 2> $T/seed_demo_build.log; }
if ! cmake --build _b -j 12 > $T/mut_build.log 2>&1; then echo "RESULT does not compile"; tail -5 $T/mut_build.log; git checkout -q -- .; exit 1; fi
ctest --test-dir _b -j8 --timeout 900 2>&1 | grep -E "tests passed|Failed|\*\*\*" > $T/ctest.log
failed=$(grep -E "^\s*[0-9]+ - " $T/ctest.log | grep -v "test_program_linear\|test_program_quadratic" | tr '\n' ';')
echo "suite with change: $(grep 'tests passed' $T/ctest.log) non-flaky failures: [${failed}]"
g++ -std=c++17 -O1 -I include -I src -I _b -I /usr/include/eigen3 $dir/demo.cpp "$@" $LIBS -lpthread -o $T/seed_demo.with 2> $T/seed_demo_build.log || { echo "demo build failed (with)"; tail -5 $T/seed_demo_build.log; }
timeout 600 $T/seed_demo.with > $T/seed_demo.with.out 2>&1; rc_with=$?
git checkout -q -- .
cmake --build _b -j 12 > $T/mut_build.log 2>&1
g++ -std=c++17 -O1 -I include -I src -I _b -I /usr/include/eigen3 $dir/demo.cpp "$@" $LIBS -lpthread -o $T/seed_demo.without 2>> $T/seed_demo_build.log || echo "demo build failed (without)"
timeout 600 $T/seed_demo.without > $T/seed_demo.without.out 2>&1; rc_without=$?
echo "demo rc with change: $rc_with, without: $rc_without"
if [ -z "$failed" ] && [ $rc_with -ne 0 ] && [ $rc_without -eq 0 ]; then echo "RESULT confirmed"; else echo "RESULT NOT confirmed"; fi
rm -rf $T
