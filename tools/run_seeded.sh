#!/bin/bash
# usage: tools/run_seeded.sh <ID> <seed-dir> ... : confirm each seeded change, then run the property check against it
out=/verif/notes/seeded_results.txt
while [ $# -ge 2 ]; do
  id=$1; dir=$2; shift 2
  conf=$(/verif/tools/confirm_seed.sh $dir 2>&1 | tr '\n' ' ' | cut -c1-600)
  res=$(cd /verif && tools/mut.py $id $dir/patch.diff 2>&1 | grep -E "^(CAUGHT|MISSED|ERROR)|violation sig" | head -4 | tr '\n' ' ' | cut -c1-500)
  echo "$(date -u +%T) $id $dir | $conf | $res" >> $out
done
