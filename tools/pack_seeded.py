#!/usr/bin/env python3
"""Copies confirmed seeded changes from /tmp/seed-<ID>/out/<i>/ into /verif/seeded/<ID>-<i>/ with a meta.json
built from notes/seeded_results.txt (what was run and the outcome)."""
import json, os, re, shutil, sys
VERIF = os.path.dirname(os.path.dirname(os.path.abspath(__file__)))
props = {json.loads(l)["id"]: json.loads(l) for l in open(os.path.join(VERIF, "properties.jsonl"))}
lines = [l.rstrip("\n") for l in open(os.path.join(VERIF, "notes", "seeded_results.txt")) if " | " in l]
latest = {}
strengthened = set()
for l in lines:
    m = re.match(r"(\S+) (C\d+) (/tmp/seed([234]?)-(C\d+)/out/(\d+)) \| (.*) \| (.*)", l)
    if m:
        key = (m.group(2), (("r%s-" % m.group(4)) if m.group(4) else "") + m.group(6))
        if m.group(8).startswith("MISSED") or "after strengthening" in m.group(8):
            strengthened.add(key)
        if key in latest and "after strengthening" in latest[key][2] and m.group(8).startswith("CAUGHT"):
            continue  # keep the line that says what was strengthened; a later lane run only repeats the outcome
        latest[key] = (m.group(3), m.group(7), m.group(8))
for (pid, i), (src, conf, res) in sorted(latest.items()):
    dst = os.path.join(VERIF, "seeded", "%s-%s" % (pid, i))
    if not os.path.isdir(src):
        continue
    os.makedirs(dst, exist_ok=True)
    for f in os.listdir(src):
        if os.path.isfile(os.path.join(src, f)) and os.path.getsize(os.path.join(src, f)) < 400000:
            shutil.copy(os.path.join(src, f), dst)
    readme = open(os.path.join(src, "README.md"), errors="replace").read() if os.path.exists(os.path.join(src, "README.md")) else ""
    needs = ""
    m = re.search(r"(?is)(what it needs|needs to manifest|trigger|needs)[^\n]*\n(.{0,900})", readme)
    if m:
        needs = " ".join(m.group(2).split())[:700]
    caught = res.startswith("CAUGHT")
    sig = re.search(r"violation sig=(\S+)", res) or re.search(r"after strengthening: (\S+)", res) or re.search(r"rc=1 (C\d+/\S+)", res)
    meta = {
        "property_id": pid,
        "property_title": props[pid]["title"],
        "seeded_by": "independent sub-agent given only the property text and its own worktree of /repo (no access to /verif)",
        "files_changed": sorted(set(re.findall(r"^\+\+\+ b/(\S+)", open(os.path.join(src, "patch.diff")).read(), re.M))),
        "needs_to_manifest": needs,
        "confirmed": {
            "how": "tools/confirm_seed.sh in a scratch worktree with a full build tree: git apply; incremental build; complete ctest suite; demo.cpp linked against the changed and the unchanged libraries",
            "result": conf.strip(),
        },
        "check_run": {
            "how": "tools/mut.py %s patch.diff  (scratch copy of /repo with the patch; VERIF_REPO=<copy> ./check %s --tier quick, VERIF_SEED=1)" % (pid, pid),
            "outcome": ("caught after strengthening the check (missed at the first attempt)" if (pid, i) in strengthened else "caught") if caught else ("missed" if res.startswith("MISSED") else "error"),
            "first_signature": sig.group(1) if sig else None,
            "raw": res.strip()[:600],
        },
    }
    json.dump(meta, open(os.path.join(dst, "meta.json"), "w"), indent=1)
    print(pid, i, meta["check_run"]["outcome"], meta["check_run"]["first_signature"])
