#!/bin/bash
# runs the thorough tier of every property once (VERIF_SEED from the environment, default 2); prints one line per property
seed=${VERIF_SEED:-2}
for id in "$@"; do
  s=$(date +%s)
  out=$(VERIF_SEED=$seed ./check $id --tier thorough 2>&1 | grep -E "thorough seed|VIOLATION|violation sig|CHECK-ERROR|note:" | cut -c1-400 | tr '\n' ' ')
  echo "$id seed=$seed $(( $(date +%s)-s ))s: $out"
done
