#!/usr/bin/env python3
"""Writes the hand-kept C08 regression inputs (replays/C08/*.case)."""
import os
OUT = os.path.join(os.path.dirname(os.path.abspath(__file__)), "..", "replays", "C08")

def vec(v): return "%d %s" % (len(v), " ".join(repr(float(x)) if isinstance(x, float) else str(x) for x in v))
def vecvec(vv): return "%d %s" % (len(vv), " ".join(vec(v) for v in vv))

def case(name, samples, feats, target, gens, lists, ops, threads=2, rng=7):
    # feats: list of (type, (d0,d1,d2), classes, values, mask)
    lines = ["sub s" + "views".encode().hex(),
             "ds.samples %d" % samples, "ds.target %d" % target,
             "ds.types " + vec([f[0] for f in feats]),
             "ds.dims " + vec([d for f in feats for d in f[1]]),
             "ds.classes " + vec([f[2] for f in feats]),
             "ds.values " + vecvec([[float(x) for x in f[3]] for f in feats]),
             "ds.mask " + vecvec([f[4] for f in feats]),
             "threads %d" % threads, "rng %d" % rng,
             "gen_kind " + vec([g[0] for g in gens]),
             "gen_subset_mode " + vec([g[1] for g in gens]),
             "gen_subset1 " + vecvec([g[2] for g in gens]),
             "gen_subset2 " + vecvec([g[3] for g in gens]),
             "gen_kernel " + vec([g[4] for g in gens]),
             "lists " + vecvec(lists),
             "op_kind " + vec([o[0] for o in ops]),
             "op_arg " + vec([o[1] for o in ops]),
             "op_arg2 " + vec([o[2] for o in ops])]
    open(os.path.join(OUT, name + ".case"), "w").write("\n".join(lines) + "\n")

F64, SCLASS, MCLASS = 9, 10, 11
QUERY, DROP, UNDROP, SHUFFLE, UNSHUFFLE, INVALID = range(6)
G_SCLASS, G_MCLASS, G_SCALAR, G_STRUCT, G_PRODUCT, G_GRADIENT = range(6)

scalar3 = (F64, (1, 1, 1), 0, [0.5, -1.25, 2.0], [1, 0, 1])
# F1: sample index == samples() accepted by flatten/select/targets
case("f1-index-equal-to-samples", 3, [scalar3], -1, [(G_SCALAR, 0, [0], [0], 0)], [[0, 1, 2]], [(INVALID, 0, 0), (QUERY, 0, 0)])
# shuffled(feature, samples) did not check the sample indices
case("shuffled-range-check", 3, [scalar3], -1, [(G_SCALAR, 0, [0], [0], 0)], [[0, 1, 2]], [(SHUFFLE, 0, 0), (INVALID, 0, 0), (INVALID, 1, 0), (QUERY, 0, 0)])
# gradient of a 3x3 input: 1x1 output described as a scalar feature, scalar view never written
img = (F64, (1, 3, 3), 0, [1, 2, 3, 4, 5, 6, 7, 8, 10,  0, 1, 0, 2, 0, 3, 0, 4, 0], [1, 1])
case("gradient-3x3-scalar-view", 2, [img], -1, [(G_GRADIENT, 0, [0], [0], 0)], [[0, 1, 1]], [(QUERY, 0, 0), (DROP, 1, 0), (QUERY, 0, 0)])
# product with two different feature lists where a pair has feature1 > feature2
s0 = (F64, (1, 1, 1), 0, [1.0, 2.0, 3.0], [1, 1, 1])
s1 = (F64, (1, 1, 1), 0, [-1.0, 0.5, 4.0], [1, 1, 0])
s2 = (F64, (1, 1, 1), 0, [7.0, -2.0, 0.25], [1, 1, 1])
case("product-two-lists", 3, [s0, s1, s2], -1, [(G_PRODUCT, 2, [0, 2], [1], 0)], [[0, 1, 2, 2]], [(QUERY, 0, 0)])
case("product-two-lists-b", 3, [s0, s1, s2], -1, [(G_PRODUCT, 2, [2], [0, 1], 0), (G_SCALAR, 1, [2, 0], [0], 0)], [[2, 1, 0]], [(QUERY, 0, 0), (SHUFFLE, 1, 0), (QUERY, 0, 0)])
