#!/usr/bin/env python3
"""Prints the prompt given to an independent 'seeding' sub-agent for one property (it sees nothing of /verif)."""
import json, sys
pid = sys.argv[1]
prop = [json.loads(l) for l in open('/verif/properties.jsonl') if json.loads(l)['id'] == pid][0]
text = json.dumps({k: prop[k] for k in ('id', 'title', 'statement', 'quantifier', 'why_tests_cant')}, indent=1)
files = ", ".join(prop['anchors']['files'])
print(f"""You are helping to evaluate a verification effort for the C++17 library libnano (accosmin-org/libnano: numerical optimisation + small ML models). Your job is to SEED realistic defects: small changes to the library that break a stated property while still compiling and passing the library's existing unit tests. You work completely independently: do NOT read or list anything under /verif (not allowed), use only the repository.

The property (id {pid}) that your changes must break:

{text}

Code areas involved (starting points, not a limit): {files}

Set-up: create your own scratch git worktree and work ONLY there (never edit /repo itself, never commit to it):
  git -C /repo worktree add --detach /tmp/seed-{pid} HEAD
  cd /tmp/seed-{pid}
Build what you need there (the machine is shared and busy, so build only what you need): `cmake -S . -B _b -G Ninja -DCMAKE_BUILD_TYPE=RelWithDebInfo -DNANO_BUILD_CMD_APP=OFF > /dev/null`, then `cmake --build _b --target <test targets>`; test binaries are `_b/test/test_*` (sources in test/*.cpp; see test/CMakeLists.txt for names). A library-only demonstration program can be compiled against the worktree, e.g. `g++ -std=c++17 -O1 -I include -I src -I _b demo.cpp -L _b/src -lnano_linear -lnano_machine -lnano_solver -lnano_function -lnano_program -lnano_core -lpthread` (check the actual library names/paths under _b/src after building target(s) `core function program solver machine linear`; Eigen is a system package under /usr/include/eigen3; use -Wl,-rpath,$PWD/_b/src for shared libraries).

Deliver TWO different changes (two different mechanisms/places), each one:
 * is small (1-15 changed lines), looks like a plausible slip of a maintainer (off-by-one, wrong index/variable, dropped term or check, `<` vs `<=`, stale state, missing synchronisation, wrong order of operations...), and breaks the property above;
 * needs something SPECIFIC to manifest — a particular interleaving, an unusual input (boundary size, ties, missing values, degenerate shape, rarely used parameter value), a multi-step sequence of operations, or two cooperating sites that each look fine alone — NOT something ordinary use would expose at once;
 * compiles, and the existing unit tests still pass with it: build and run at least the test binaries that exercise the changed code (say which you ran, 2 runs each); the coordinator re-runs the complete suite afterwards, so do not pick a change an existing test already catches (if one does, pick another change);
 * comes with a demonstration: a small standalone program (or a new test file) that FAILS (non-zero exit / assertion) with your change and PASSES without it — run it both ways and record the outputs.
For each change i = 1, 2 write into /tmp/seed-{pid}/out/<i>/: `patch.diff` (output of `git diff` in the worktree for that change ALONE, applicable with `git apply` to a clean checkout of the same commit), `demo.cpp` (or demo test + how to build/run it), `README.md` (what the change is, why it breaks the property, what exactly it needs in order to manifest, which existing tests you ran with it and their result, the demonstration's output with and without the change). Keep the two changes independent (reset the worktree between them: `git checkout -- .`). When done, delete your build directory (`rm -rf /tmp/seed-{pid}/_b`) but keep the worktree and `out/`. Final message: a short summary of the two changes and where the files are.""")
