#!/usr/bin/env python3
"""Sensitivity experiment: run a property check against a scratch copy of /repo with one change applied.

  tools/mut.py <ID>[,<ID>...] <patch-file | 'sed:<file>:<sed-expression>' | 'rep:<file>:<n>:<old>=><new>'> [--tier quick] [--seed N] [--keep]

The copy lives in /var/tmp/verif-mut.<pid>; it and its build trees are removed afterwards.
Prints one line per property: CAUGHT / MISSED / ERROR, plus the VIOLATION line.
"""
import hashlib, os, shutil, subprocess, sys

VERIF = os.path.dirname(os.path.dirname(os.path.abspath(__file__)))

def main():
    ids = sys.argv[1].split(",")
    change = sys.argv[2]
    tier, seed, keep = "quick", "1", False
    args = sys.argv[3:]
    while args:
        a = args.pop(0)
        if a == "--tier": tier = args.pop(0)
        elif a == "--seed": seed = args.pop(0)
        elif a == "--keep": keep = True
    copy = "/var/tmp/verif-mut.%d" % os.getpid()
    subprocess.check_call(["rsync", "-a", "--exclude", "_build", "--exclude", ".git", "/repo/", copy + "/"])
    try:
        if change.startswith("rep:"):
            # rep:<file>:<n>:<old>=><new>  replace the n-th (1-based, 0 = all) occurrence of an exact string
            _, f, nth, spec = change.split(":", 3)
            old, new = spec.split("=>", 1)
            old, new = old.encode().decode("unicode_escape"), new.encode().decode("unicode_escape")
            text = open(os.path.join(copy, f)).read()
            if old not in text:
                print("ERROR string to replace not found"); return 2
            if int(nth) == 0:
                text = text.replace(old, new)
            else:
                parts = text.split(old)
                if len(parts) <= int(nth):
                    print("ERROR fewer occurrences than requested"); return 2
                text = old.join(parts[:int(nth)]) + new + old.join(parts[int(nth):])
            open(os.path.join(copy, f), "w").write(text)
        elif change.startswith("sed:"):
            _, f, expr = change.split(":", 2)
            before = open(os.path.join(copy, f)).read()
            subprocess.check_call(["sed", "-i", "-E", expr, os.path.join(copy, f)])
            if open(os.path.join(copy, f)).read() == before:
                print("ERROR the sed expression changed nothing"); return 2
        else:
            r = subprocess.run(["patch", "-p1", "-d", copy, "-i", os.path.abspath(change)], stdout=subprocess.PIPE, stderr=subprocess.STDOUT, text=True)
            if r.returncode != 0:
                print("ERROR patch failed:\n" + r.stdout); return 2
        rc = 0
        for pid in ids:
            env = dict(os.environ, VERIF_REPO=copy, VERIF_SEED=seed)
            r = subprocess.run([os.path.join(VERIF, "check"), pid, "--tier", tier], stdout=subprocess.PIPE, stderr=subprocess.STDOUT, text=True, env=env, cwd=VERIF)
            lines = [l for l in r.stdout.splitlines() if l.startswith(("VIOLATION", "violation", "CHECK-ERROR", "KNOWN-FINDING")) or " cases, " in l]
            verdict = "CAUGHT" if r.returncode == 1 else ("MISSED" if r.returncode == 0 else "ERROR")
            print("%s %s rc=%d" % (verdict, pid, r.returncode))
            for l in lines: print("   " + l[:400])
            if verdict == "ERROR": print(r.stdout[-3000:])
    finally:
        if not keep:
            shutil.rmtree(copy, ignore_errors=True)
            h = hashlib.md5(copy.encode()).hexdigest()[:8]
            for fl in ("plain", "asan", "tsan", "alt"):
                shutil.rmtree(os.path.join(VERIF, ".build", fl + "-" + h), ignore_errors=True)
    return 0

if __name__ == "__main__":
    sys.exit(main())
