#!/bin/bash
# waits for a running batch, then runs the listed batches one after the other
for id in "$@"; do
  while pgrep -f "tools/run_mutants.sh" > /dev/null; do sleep 20; done
  /verif/tools/run_mutants.sh $id /verif/tools/mutants_$id.txt
done
